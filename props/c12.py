"""C12 — every connection: one connect, ordered reads, one disconnect, then no trace (server), one disconnected per connected (client).

Engine: SimNet.  A run draws ONE history (the tape prefix): 1-5 simulated peers against one TCPServer/UNIXServer, peer actions (connect,
send n bytes in pieces, half-close, orderly close, abort = close with unread data, connect-and-reset before the server's next step,
stop/resume reading) interleaved with server-side
`write(sock, data)`, `close(sock)` - also LATE ones, addressed to a socket whose `disconnect` was already observed - and the fault set
(short reads, spurious EAGAIN, recv reset, short writes, transient / fatal send errors, accept errors, EINTR in the poller, and
`peer_gone_before_accept`: a TCP connection that the peer reset while it was still in the accept queue is returned by accept() all the same, but
getpeername() on it fails with ENOTCONN - AF_UNIX never does that, so the policy's on_getpeername hook does it).  The SAME history
is then executed under Select, Poll and EPoll (fresh manager, fresh sockets, fault placement drawn per call from the rest of the tape).
A quarter of the runs do the mirror image: one TCPClient component against a simulated listener.

Oracle (each clause quotes the statement):
  * "exactly one connect, then ... read events ..., then exactly one disconnect, and nothing for that socket afterwards": an automaton per
    socket object, driven online by an observer component on the server's channel (C12/stream/...); an `error(sock, ...)` event dispatched
    after the socket's disconnect is "something afterwards" too (C12/after-disconnect/error-event/<poller>) - error events BEFORE the
    disconnect are not judged.  A connection that was reset before the server accepted it (getpeername() failed) may stay unannounced
    altogether or go through connect ... disconnect like any other; a disconnect (or read) for a socket that never had its connect is a
    violation (C12/stream/disconnect-without-connect/reset-before-accept);
  * "the received bytes as read events in order without loss or duplication": the interposer records what recv() returned for the socket
    (ground truth of "received"); the concatenated read payloads must be a prefix of it at all times and equal to it at every quiescent
    point and at the disconnect (C12/reads/...).  When the peer ended the connection in an orderly way (everything sent, then FIN / close
    with nothing unread) and neither the server, a fatal fault nor a failing server write ended it first, all bytes the peer sent must
    have been received before the disconnect (C12/reads/incomplete-at-disconnect);
  * "exactly one disconnect ... whatever the peer does": after the final phase (every peer closed, true quiescence) every connected
    socket has exactly one disconnect - also after recv_reset / fatal send errors (C12/disconnect/missing/...);
  * "After the disconnect neither the server nor the poller retains any state for that socket, even if writes or closes addressed to it
    arrive late": at every quiescent point a generic walk over every container reachable from the attributes of the server and of the
    poller (dict keys/values, lists, tuples, sets, deques, nested) looks for the socket OBJECT; the attribute path is part of the key
    (C12/residue/server._buffers/late-write, C12/residue/EPoll._map/after-disconnect, ...).  No table is named in the check;
  * "whichever poller is used": when every action of the history was followed by full quiescence and no fault fired in any of the
    three executions (fault placement is drawn per call, so it differs between them and legitimately changes timing), the per-connection (connects, bytes read, disconnects) after every step must be identical under the three pollers
    (C12/pollers-disagree/...);
  * "client components likewise report one disconnected per connected": `connected`/`disconnected` of a TCPClient must alternate and be
    equal in number after the final phase (C12/client/...).

Quiescence is established twice: a settle with faults on, then one with faults off (an injected EINTR makes an iteration look idle).
Not a liveness property: a settle that does not end raises HarnessLimit.
"""
import socket as _socket
import zlib
from collections import deque

from simcore import world, simnet
from simcore.world import W
from simcore.simnet import NET, Peer, PeerListener, TapePolicy, step, make_running
from simcore.runner import HarnessLimit

from circuits import Manager, Component, handler
from circuits.core.pollers import Select, Poll, EPoll
from circuits.net.sockets import TCPServer, UNIXServer, TCPClient
from circuits.net import events as NE

ID = 'C12'
LEVEL = 'fault_enumeration'
ENGINE = 'SimNet'
LEVEL_TEXT = ('seeded enumeration of connection histories x network faults on the real TCPServer/UNIXServer/TCPClient and the real Select/Poll/EPoll over '
              'real AF_UNIX sockets: every history is executed under all three pollers; per-socket automaton, byte-exact read stream against what '
              'recv() returned, residue walk over server and poller at every quiescent point, cross-poller comparison; sampling, not proof')
LEVEL_NOTE = ('trusted: the socket interposer (addresses, fault injection, record of recv results), the kernel\'s AF_UNIX semantics as stand-in for TCP '
              '(reset = close with unread data), quiescence = 5 loop iterations without observable progress with faults off; `error` events are judged only after a disconnect')
RULE = ('each run = one history (connections, peer actions incl. connect-and-reset before accept, server writes/closes incl. late ones, fault kinds+rate, bufsize, SO_SNDBUF) drawn from the tape and '
        'executed under each poller; non-trivial = under every executed poller at least one connection went through connect, >= 1 read and disconnect AND the '
        'history contains a server-side write/close, an abort, a half-close, a stalled peer or a fired fault; distinct = digest of the full observer/action log')
STATE_MEASURE = '(poller, how the connection ended, close requested with data pending, late op kind, bytes-read bucket) per connection; (poller, client end shape) in client mode'
REAL = ['circuits.net.sockets.Server/TCPServer/UNIXServer (_accept, _on_accept_done, _read, _write, write, close, _close, _on_write)',
        'circuits.net.sockets.Client/TCPClient (connect, _read, _write, close, _close)', 'circuits.core.pollers.Select/Poll/EPoll (real select/poll/epoll objects)',
        'circuits.core.manager.Manager (tick, dispatch, tasks)', 'Linux AF_UNIX stream sockets']
STUBBED = ['socket class -> SimSocket (AF_UNIX behind simulated addresses, fault policy per recv/send/accept/connect)', 'select module -> zero-timeout shim (+EINTR)',
           'time() in net.sockets -> virtual clock', 'remote ends are harness Peers, never circuits components']
ASSUMPTIONS = ['`error` events are judged in one respect only: none may name a socket after its disconnect was observed; error events before the disconnect and '
               '`exception` events are not part of the judged stream',
               'a prefix of the sent bytes is accepted whenever the server closed first, a fatal fault hit the socket, the peer aborted, or the peer closed while '
               'server data for it was still unsent (the failing send legitimately ends the connection before the last bytes are read)',
               'pollers are compared only on histories where every action ran to quiescence and no fault fired in any of the three executions (otherwise timing and the '
               'independently drawn faults legitimately change what is read / when a close deferred by unsent data completes)',
               'client clause: only the pairing of connected/disconnected is judged',
               'a connection the peer reset before the server accepted it (accept() returns the socket, getpeername() fails with ENOTCONN; TCP only, never for '
               'UNIXServer): the statement says "every connection a server accepts" gets one connect and one disconnect; the weaker reading is taken - such a '
               'connection may also stay completely unannounced (no connect, no read, no disconnect; C12/connect/missing is not raised for it) - but a disconnect or '
               'read for a socket that was never announced by connect is a violation; `error` events for it are not judged (statement silent); whether the '
               'failure applies to a reset-before-accept connection is drawn from the tape (fault kind peer_gone_before_accept, 1 in 2 when the kind is on)']
PROBES = ['late-write', 'late-close', 'client-close-while-writing-peer-gone', 'answer-close-while-peer-talks', 'write-then-peer-gone', 'readable-and-writable-round-ends-connection', 'abort', 'half-close', 'stalled-send-buffer-full', 'close-deferred-by-buffer', 'peer-close-while-writing', 'unix-server',
          'reset-before-accept', 'reset-before-accept-unannounced', 'fault:peer_gone_before_accept',
          'client-mode', 'client-reconnect', 'pollers-compared', 'echo-write', 'multi-conn', 'unsettled-action', 'cfg:Select', 'cfg:Poll', 'cfg:EPoll',
          'fault:short_read', 'fault:spurious_eagain_read', 'fault:recv_reset', 'fault:short_write', 'fault:transient_send_error', 'fault:fatal_send_error',
          'fault:accept_error', 'fault:poll_eintr', 'fault:connect_delay']
TIERS = {
    'quick': dict(runs=22000, wall=30, chunk=25, cfg=dict(max_conn=4, max_actions=10, big=20000)),
    'thorough': dict(runs=300000, wall=600, chunk=200, cfg=dict(max_conn=5, max_actions=22, big=60000)),
}

POLLERS = [Select, Poll, EPoll]
FAULTS = ['short_read', 'spurious_eagain_read', 'recv_reset', 'short_write', 'transient_send_error', 'fatal_send_error', 'accept_error', 'poll_eintr',
          'peer_gone_before_accept']
RESET_BEFORE_ACCEPT = 'C12/stream/disconnect-without-connect/reset-before-accept'
SIZES = [1, 2, 5, 64, 300, 300, 3000]
CONTAINERS = (list, tuple, set, frozenset, deque)
ADDR = ('10.0.0.1', 80)
UPATH = '/sim/c12.sock'
CADDR = ('10.0.0.2', 7000)


class Stop(Exception):
    """first violation of the run: stop driving it"""


class Policy(TapePolicy):
    """TapePolicy that remembers which sockets were hit by a connection-killing fault."""

    def __init__(self, ctx, kinds, rate):
        super().__init__(ctx, kinds, rate)
        self.fatal = set()
        self.polls = 0
        self.reset_before_accept = None    # callable(sock) -> did the peer of this accepted socket reset the connection already? (set by run_server)
        self.unannounced = set()           # sim_ids of accepted sockets whose getpeername() failed
        self.named = set()

    def on_recv(self, sock, n):
        act = super().on_recv(sock, n)
        if act and act[0] == 'err' and act[1] in simnet.FATAL:
            self.fatal.add(sock.sim_id)
        return act

    def on_send(self, sock, n):
        act = super().on_send(sock, n)
        if act and act[0] == 'err' and act[1] in simnet.FATAL:
            self.fatal.add(sock.sim_id)
        return act

    def on_poll(self, kind):
        # only the first poll call of a loop iteration (the wait in _generate_events) can be interrupted; Select's zero-timeout probes of single
        # descriptors (_preenDescriptors) come later in the same iteration, never sleep and so never see EINTR
        self.polls += 1
        return self.polls == 1 and super().on_poll(kind)

    def on_getpeername(self, sock):
        # TCP: a connection the peer reset while it was waiting in the accept queue is still returned by accept(), but has no peer any more:
        # getpeername() fails with ENOTCONN.  AF_UNIX sockets never do that, so it is injected here (decided once per socket).
        sid = sock.sim_id
        if sid in self.unannounced:
            return True
        if (sid in self.named or not self.enabled or 'peer_gone_before_accept' not in self.kinds or self.reset_before_accept is None
                or not self.reset_before_accept(sock)):
            return False
        if self.ctx.ch.chance(1, 2, 'fault?peer_gone_before_accept'):
            self.ctx.stat('fault:peer_gone_before_accept')
            self.unannounced.add(sid)
            return True
        self.named.add(sid)
        return False

    def on_connect(self, sock, addr):
        # a non-blocking TCP connect() always answers EINPROGRESS first; AF_UNIX would answer 0, which TCPClient's reconnect path
        # (connect_ex on a fresh socket) does not expect.  The fault `connect_delay` adds 1-4 failing getpeername() polls on top.
        return super().on_connect(sock, addr) or ('delay', 0)


_KNOWN = []


def known_keys():
    """Listed known findings (known_findings.json + findings/C12.pending.json); used ONLY to choose which of several simultaneous
    residue violations is reported first, so that a listed one does not hide an unlisted one."""
    if not _KNOWN:
        from simcore import runner
        _KNOWN.append(frozenset(runner.known_keys(ID)))
    return _KNOWN[0]


def holders(root, label, sock):
    """Attribute paths of `root` under which a (nested) plain container holds the object `sock`."""
    hits = set()

    def scan(v, path, depth):
        if v is sock:
            hits.add(path)
        elif depth < 5:
            if isinstance(v, dict):
                for k, x in list(v.items()):
                    scan(k, path, depth + 1)
                    scan(x, path, depth + 1)
            elif isinstance(v, CONTAINERS):
                for x in list(v):
                    scan(x, path, depth + 1)

    for name, val in list(vars(root).items()):
        scan(val, '%s.%s' % (label, name), 0)
    return sorted(hits)


def payload(conn, off, n):
    return bytes((conn * 37 + off + j) % 251 for j in range(n))


def crc(b):
    return zlib.crc32(bytes(b)) & 0xffffffff


def unread(peer):
    """bytes waiting in the peer's receive queue (decides whether its close is a reset for the other side)"""
    try:
        return len(peer.sock.recv(1 << 16, _socket.MSG_PEEK))
    except (BlockingIOError, OSError):
        return 0


class Sub:
    """State shared by the two kinds of sub-run (one poller, one fresh world of sockets)."""

    def __init__(self, ctx, P, kinds, rate):
        simnet.reset(ctx)
        self.ctx = ctx
        self.P = P
        self.name = P.__name__
        self.lines = []
        self.failed = False
        self.pol = Policy(ctx, kinds, rate)
        NET.policy = self.pol
        self.m = make_running(Manager())
        self.poller = P().register(self.m)
        self.t0 = W.now
        self.exceptions = 0
        self.faults0 = self.nfaults()
        self.progress = 0      # observable progress counters (see _settle)
        self.nev = 0
        self.iter = 0
        self.on_recv = None
        NET.oplog = self._oplog
        ctx.stat('cfg:' + self.name)
        ctx.log('sub', self.name)

    def nfaults(self):
        return sum(v for k, v in self.ctx.stats.items() if k.startswith('fault:'))

    def faulted(self):
        return self.nfaults() != self.faults0

    def tr(self, fmt, *args):
        if self.ctx.keep_trace:
            self.lines.append('[%s] %s' % (self.name, fmt % args if args else fmt))

    def fail(self, key, detail):
        if key in self.ctx.avoid:
            # the generator stayed away from the trigger of this known finding in this run, so this is something else with the same symptom
            key += '/although-trigger-avoided'
        self.failed = True
        self.tr('VIOLATION %s: %s', key, detail)
        self.ctx.violation(key, '%s: %s' % (self.name, detail))
        raise Stop()

    def step(self):
        self.pol.polls = 0
        self.iter += 1
        return step(self.m)

    def _oplog(self, kind, sock, data):
        if kind == 'close' or data:
            self.progress += 1            # bytes moved or a descriptor closed (an empty recv = EOF seen again is not progress)
        if kind == 'recv' and data and self.on_recv is not None:
            self.on_recv(sock, data)

    def _settle(self, pump, quiet_rounds):
        """Loop iterations until nothing OBSERVABLE happened for `quiet_rounds` rounds: no observer event, no byte moved, no socket
        opened/closed, no peer progress, no suspended task.  (A loop that keeps re-reading an EOF it cannot act on yet - close deferred by
        unsent data to a peer that does not read - fires events for ever without progress; that is quiescence for the purposes here.)"""
        quiet = n = 0
        while quiet < quiet_rounds:
            sig = (self.progress, self.nev, len(NET.socks))
            self.step()
            did = pump()
            quiet = quiet + 1 if (not did and sig == (self.progress, self.nev, len(NET.socks)) and not self.m._tasks) else 0
            n += 1
            if n > 6000:
                raise HarnessLimit('C12: no quiescence after %d loop iterations' % n)

    def quiesce(self, pump):
        self._settle(pump, 2)
        self.pol.enabled = False          # an injected EINTR / EAGAIN makes an iteration look idle: confirm without faults
        try:
            self._settle(pump, 5)
        finally:
            self.pol.enabled = True

    def partial(self, pump, k):
        for _ in range(k):
            self.step()
            pump()


# ----------------------------------------------------------------------------------------------------------------------
# server mode

def gen_server_plan(ch, cfg):
    plan = dict(unix=ch.chance(1, 5, 'unix-server'), bufsize=ch.choice([4096, 4096, 512, 64, 8], 'bufsize'), sndbuf=ch.choice([0, 4608, 4608], 'sndbuf'),
                order=ch.permute([0, 1, 2], 'poller-order'))
    plan['kinds'] = ch.subset(FAULTS, 'fault-kind') if ch.chance(2, 3, 'faulty') else []
    plan['rate'] = ch.choice([4, 8, 16], 'fault-rate')
    nconn = ch.randint(1, cfg['max_conn'], 'nconn')
    plan['conns'] = [dict(echo=ch.chance(1, 4, 'echo'), reading=not ch.chance(1, 4, 'stalled')) for _ in range(nconn)]
    acts = []
    for _ in range(ch.randint(2, cfg['max_actions'], 'nactions')):
        k = ch.weighted([6, 4, 2, 3, 1, 2, 2, 1, 2, 1, 2], 'action')
        kind = ['send', 'srv_write', 'srv_close', 'peer_close', 'abort', 'half_close', 'toggle_read', 'srv_big', 'answer_close_talk', 'write_peer_gone',
                'connect_reset'][k]        # connect_reset: the peer connects and resets (SO_LINGER 0, close) before the server's next step
        i = ch.draw(nconn, 'conn')
        arg = None
        if kind == 'send':
            n = ch.choice(SIZES, 'nbytes')
            cuts = sorted(ch.draw(n, 'cut') for _ in range(ch.weighted([4, 2, 1], 'pieces'))) if n > 1 else []
            arg = (n, cuts, ch.chance(1, 3, 'step-between-pieces'))
        elif kind == 'srv_write':
            arg = ch.choice(SIZES, 'nbytes')
        elif kind == 'srv_big':
            arg = cfg['big']
        elif kind == 'answer_close_talk':
            # the application answers and closes (close deferred by the unsent answer) while the peer keeps talking: in ONE poll round the socket is
            # writable and readable, and handling the writable side ends the connection
            arg = (ch.choice(SIZES[:5], 'nbytes'), ch.choice(SIZES[:5], 'nbytes'))
        elif kind == 'write_peer_gone':
            # a write is pending and the peer goes away (orderly, or reset if it has unread data) before the server polls again
            arg = (ch.choice(SIZES[:5], 'nbytes'), ch.chance(1, 2, 'peer-aborts'))
        acts.append((kind, i, arg, ch.weighted([10, 1, 1], 'settle-mode')))
    plan['acts'] = acts
    plan['close_all'] = ch.chance(1, 8, 'server-close-all')
    return plan


def run_server(ctx, plan, P, skip_late):
    kinds = [k for k in plan['kinds'] if not (k == 'fatal_send_error' and 'send-fails' in skip_late) and not (k == 'recv_reset' and 'recv-fails-deferred' in skip_late)
             and not (k == 'peer_gone_before_accept' and ('reset-before-accept' in skip_late or plan['unix']))]      # (getpeername() of an AF_UNIX socket never fails)
    S = Sub(ctx, P, kinds, plan['rate'])
    m, poller, tr, fail = S.m, S.poller, S.tr, S.fail
    if plan['unix']:
        srv = UNIXServer(UPATH, bufsize=plan['bufsize']).register(m)
        addr = UPATH
        ctx.stat('unix-server')
    else:
        srv = TCPServer(ADDR, bufsize=plan['bufsize']).register(m)
        addr = ADDR
    conns = [dict(idx=i, peer=None, pstate='none', end=None, rec=None, off=0, reading=c['reading'], echo=c['echo'], wrote=0) for i, c in enumerate(plan['conns'])]
    by_local = {}
    recs = {}        # sim_id -> record of the server-side socket
    recvd = {}       # sim_id -> bytearray of everything recv() returned (interposer ground truth)
    snaps = []
    st = dict(listening=True, settled=True)

    def on_recv(sock, data):
        recvd.setdefault(sock.sim_id, bytearray()).extend(data)
    S.on_recv = on_recv

    def reset_before_accept(sock):
        # asked by the policy when the server looks at a freshly accepted socket: has its peer (matched by simulated address) reset the connection already?
        c = by_local.get(sock.sim_peer) if isinstance(sock.sim_peer, tuple) else None
        if c is None or c['pstate'] != 'closed' or c['end'] != 'aborted' or c['rec'] is not None:
            return False
        c['srv_sid'] = sock.sim_id
        return True
    S.pol.reset_before_accept = reset_before_accept

    # reach probe only: which sockets did one poll round report readable AND writable (instance attribute `fire` of the poller, nothing is judged here)
    seen_rw, both_rw = {}, {}
    real_fire = poller.fire

    def spy(event, *channels, **kw):
        if event.name in ('_read', '_write') and event.args:
            sid = getattr(event.args[0], 'sim_id', None)
            it, names = seen_rw.get(sid, (None, ()))
            names = (names if it == S.iter else ()) + (event.name,)
            seen_rw[sid] = (S.iter, names)
            if '_read' in names and '_write' in names:
                both_rw[sid] = S.iter
        return real_fire(event, *channels, **kw)
    poller.fire = spy

    def cname(rec):
        return 'conn%d' % rec['conn']['idx'] if rec.get('conn') else 'sock#%d' % rec['sid']

    def server_write(rec, data, origin):
        c = rec['conn']
        if 'late-write' in skip_late and (rec['ndisc'] or rec['close_issued'] or not st['settled'] or (c is not None and c['pstate'] != 'open')
                                          or rec['sid'] in S.pol.fatal):
            tr('%s: write that would (or could) arrive after the closure skipped (known finding avoided)', origin)
            return
        if 'send-fails' in skip_late and c is not None and c['pstate'] == 'closed':
            tr('%s: write to a connection whose peer is gone skipped (known finding avoided)', origin)
            return
        if rec['ndisc']:
            ctx.stat('late-write')
            tr('%s: LATE write of %d bytes to %s (disconnect already observed)', origin, len(data), cname(rec))
        else:
            rec['issued'] += len(data)
            if c is not None and c['pstate'] == 'closed':
                rec['risky'] = True       # a send to a closed peer fails and legitimately ends the connection early
            tr('%s: write %d bytes to %s', origin, len(data), cname(rec))
        ctx.log('srv-write', rec['conn']['idx'] if c else -1, len(data), bool(rec['ndisc']))
        m.fire(NE.write(rec['sock'], data), srv.channel)

    def arrival(sock, what):
        rec = recs.get(getattr(sock, 'sim_id', -1))
        if rec is not None and sock.sim_closed_at is not None:
            rec['arrivals'].append((what, residue(rec)))      # what held the socket just before this late event was handled
            rec['late'] = what

    def residue(rec):
        return holders(srv, 'server', rec['sock']) + holders(poller, S.name, rec['sock'])

    class Obs(Component):
        channel = srv.channel

        def connect(self, sock, host, port):
            sid = sock.sim_id
            c = by_local.get((host, port))
            ctx.log('connect', sid, c['idx'] if c else -1)
            S.nev += 1
            tr('    observer: connect #%d from %s:%s%s', sid, host, port, ' = conn%d' % c['idx'] if c else '')
            if sid in recs:
                fail('C12/stream/connect-twice', 'second connect event for socket #%d' % sid)
            rec = recs[sid] = dict(sid=sid, sock=sock, conn=c, nconn=1, reads=bytearray(), ndisc=0, late=None, arrivals=[], issued=0, risky=False, close_issued=False, deferred=False)
            if c is not None:
                c['rec'] = rec
            if plan['sndbuf']:
                sock.setsockopt(_socket.SOL_SOCKET, _socket.SO_SNDBUF, plan['sndbuf'])

        def read(self, sock, data):
            sid = getattr(sock, 'sim_id', -1)
            rec = recs.get(sid)
            ctx.log('read', sid, len(data), crc(data))
            S.nev += 1
            tr('    observer: read #%d %d bytes', sid, len(data))
            if rec is None:
                fail('C12/stream/read-without-connect' + ('/reset-before-accept' if sid in S.pol.unannounced else ''),
                     'read event for socket #%d that was never announced by connect' % sid)
            if rec['ndisc']:
                fail('C12/stream/read-after-disconnect', 'read event (%d bytes) for socket #%d after its disconnect' % (len(data), sid))
            rec['reads'] += data
            # "the received bytes as read events in order without loss or duplication"
            if not bytes(recvd.get(sid, b'')).startswith(bytes(rec['reads'])):
                fail('C12/reads/not-the-received-bytes', 'socket #%d: read events so far (%d bytes) are not a prefix of what recv() returned (%d bytes): '
                     'duplicated, reordered or foreign data' % (sid, len(rec['reads']), len(recvd.get(sid, b''))))
            if rec['conn'] is not None and rec['conn']['echo']:
                ctx.stat('echo-write')
                server_write(rec, bytes(data), '    observer(echo)')

        def disconnect(self, sock):
            sid = getattr(sock, 'sim_id', -1)
            if getattr(sock, 'sim_listening', False):
                S.nev += 1
                tr('    observer: disconnect of the listening socket')
                return
            rec = recs.get(sid)
            ctx.log('disconnect', sid)
            S.nev += 1
            tr('    observer: disconnect #%d', sid)
            if rec is None:
                if sid in S.pol.unannounced:
                    # "exactly one connect, then ..., then exactly one disconnect ... whatever the peer does (... abort ...)"
                    fail(RESET_BEFORE_ACCEPT, 'disconnect event for socket #%d, which was never announced by connect: the peer had reset the connection before the '
                         'server accepted it, getpeername() failed with ENOTCONN and no connect event was fired' % sid)
                fail('C12/stream/disconnect-without-connect', 'disconnect event for socket #%d that was never announced by connect' % sid)
            if rec['ndisc']:
                fail('C12/stream/disconnect-twice', 'second disconnect event for socket #%d' % sid)
            rec['ndisc'] = 1
            if both_rw.get(sid) is not None and S.iter - both_rw[sid] <= 2:       # round k reports both, k+1 handles them, k+2 dispatches the disconnect
                ctx.stat('readable-and-writable-round-ends-connection')
            check_reads(rec, 'at its disconnect')
            c = rec['conn']
            if c is not None:
                how = c['end'] or ('server-close' if rec['close_issued'] else 'fault' if sid in S.pol.fatal else 'open')
                ctx.state((S.name, how, rec['deferred'], min(len(rec['reads']), 5000) // 1000))
                # "without loss": an orderly ended, undisturbed connection must have been read to its end
                if (c['end'] in ('closed', 'half') and not rec['close_issued'] and not rec['risky'] and sid not in S.pol.fatal
                        and bytes(rec['reads']) != bytes(c['peer'].sent)):
                    fail('C12/reads/incomplete-at-disconnect', 'conn%d: the peer sent %d bytes and then ended the connection in an orderly way (%s); the server '
                         'disconnected after delivering only %d bytes although neither a server-side close, a fault nor a failing write intervened'
                         % (c['idx'], len(c['peer'].sent), c['end'], len(rec['reads'])))

        # the write/close events as they ARRIVE at the server (priority: before the server's own handler).  "Late" is decided here from the
        # interposer's ground truth (descriptor already closed); what holds the socket at this moment is residue of the disconnect itself.
        @handler('write', priority=50)
        def _write_arrives(self, sock, data):
            arrival(sock, 'late-write')

        @handler('close', priority=50)
        def _close_arrives(self, sock=None):
            arrival(sock, 'late-close')

        def error(self, *args):
            sid = getattr(args[0], 'sim_id', -1) if args else -1
            ctx.log('error', sid)
            tr('    observer: error #%d %r', sid, args[1:] if len(args) > 1 else args)       # (not counted as progress: a dead socket can produce these for ever)
            rec = recs.get(sid)
            if rec is not None and rec['ndisc']:
                # "then exactly one disconnect, and nothing for that socket afterwards": error events are judged only here
                fail('C12/after-disconnect/error-event/%s' % S.name, 'error event %r for socket #%d was dispatched after its disconnect had been observed' % (
                    args[1:], sid))

        @handler('exception', channel='*')
        def _on_exception(self, etype, value, *a, **k):
            S.exceptions += 1
            ctx.log('exception', etype.__name__)
            S.nev += 1
            tr('    observer: exception event %s: %s', etype.__name__, value)

    def check_reads(rec, when):
        got, want = bytes(rec['reads']), bytes(recvd.get(rec['sid'], b''))
        if got != want:
            key = 'C12/reads/lost' if want.startswith(got) else 'C12/reads/not-the-received-bytes'
            fail(key, 'socket #%d %s: recv() returned %d bytes in total but the read events carry %d' % (rec['sid'], when, len(want), len(got)))

    Obs().register(m)

    def pump():
        did = False
        for c in conns:
            p = c['peer']
            if p is not None and not p.closed:
                if p.out and p.pump():
                    did = True
                if c['reading'] and p.recv():
                    did = True
        return did

    def checks(step_no):
        """Clauses that hold at every quiescent point."""
        for rec in recs.values():
            check_reads(rec, 'at quiescence')
            if rec['ndisc']:
                # "After the disconnect neither the server nor the poller retains any state for that socket, even if writes or closes ... arrive late"
                hits = residue(rec)
                if hits:
                    # attribute every holder to the stage after which it first held the socket: the disconnect itself, or the k-th late event
                    cands, seen, when = [], set(), 'after-disconnect'
                    for what, held in rec['arrivals'] + [(None, hits)]:
                        cands += [(p, when) for p in held if p not in seen and p in hits]       # (only what is still held now counts)
                        seen.update(held)
                        when = what
                    # several holders = several violations; only one can be reported: prefer one that is not a listed known finding
                    keys = ['C12/residue/%s/%s' % c for c in cands]
                    key = next((k for k in keys if k not in known_keys()), keys[0])
                    fail(key, '%s (socket #%d): disconnect was observed%s, yet at quiescence the socket object is still held by: %s'
                         % (cname(rec), rec['sid'], ' and %d late write/close event(s) arrived' % len(rec['arrivals']) if rec['arrivals'] else '',
                            ', '.join('%s (%s)' % c for c in cands)))
        snaps.append(tuple((c['rec']['nconn'], len(c['rec']['reads']), crc(c['rec']['reads']), c['rec']['ndisc']) if c['rec'] else (0, 0, 0, 0) for c in conns))

    def open_conn(c):
        p = Peer()
        err = p.connect(addr)
        c['peer'] = p
        if err:
            c['pstate'] = 'closed'
            c['end'] = 'refused'
            tr('conn%d: connect refused (errno %d)' % (c['idx'], err))
            return
        c['pstate'] = 'open'
        by_local[p.local] = c
        tr('conn%d: peer connects from %s:%d%s%s' % (c['idx'], p.local[0], p.local[1], ', echo' if c['echo'] else '', '' if c['reading'] else ', peer does not read'))

    def end_peer(c, drain):
        p, rec = c['peer'], c['rec']
        if 'recv-fails-deferred' in skip_late:
            drain = True
        if 'send-fails' in skip_late:
            # known finding avoided: the peer takes everything the server has for it before it goes away, so that no send fails
            c['reading'] = True
            S.quiesce(pump)
            drain = True
        if drain:
            p.recv()
        n = unread(p)
        p.close()
        c['pstate'] = 'closed'
        c['end'] = 'aborted' if n else 'closed'
        if n:
            ctx.stat('abort')
        if rec is not None and not rec['ndisc'] and rec['issued'] > len(rec['sock'].sim_sent):
            rec['risky'] = True
            ctx.stat('peer-close-while-writing')
        tr('conn%d: peer closes (%s)' % (c['idx'], 'RESET: %d bytes unread' % n if n else 'orderly'))

    def do(no, act):
        kind, i, arg, smode = act
        ctx.log('act', no, kind, i)
        if kind == 'answer_close_talk':
            ctx.stat('answer-close-while-peer-talks')
            parts = [('srv_write', arg[0]), ('srv_close', None), ('send', (arg[1], [], False))]
        elif kind == 'write_peer_gone':
            ctx.stat('write-then-peer-gone')
            parts = [('srv_write', arg[0]), ('abort' if arg[1] else 'peer_close', None)]
        else:
            parts = [(kind, arg)]
        for k2, a2 in parts:      # the parts of a compound action follow each other without a loop iteration in between
            one(k2, i, a2)
        st['settled'] = smode == 0
        if smode == 0:
            S.quiesce(pump)
            for c2 in conns:
                r2 = c2['rec']
                if r2 is not None and not r2['ndisc'] and not c2['reading'] and r2['issued'] > len(r2['sock'].sim_sent):
                    ctx.stat('stalled-send-buffer-full')
            checks(no)
        else:
            ctx.stat('unsettled-action')
            tr('   (only %d loop iteration(s) before the next action)' % (smode == 1))
            S.partial(pump, 1 if smode == 1 else 0)

    def one(kind, i, arg):
        c = conns[i]
        if c['pstate'] == 'none':
            if st['listening']:
                open_conn(c)
                if kind == 'connect_reset' and c['pstate'] == 'open':
                    # "reset via SO_LINGER 0": the connection is complete for the kernel (it waits in the accept queue) and destroyed before the server's next step
                    c['peer'].close()
                    c['pstate'] = 'closed'
                    c['end'] = 'aborted'
                    ctx.stat('abort')
                    ctx.stat('reset-before-accept')
                    tr('conn%d: peer RESETS the connection at once (SO_LINGER 0, close), before the server has accepted it' % i)
        elif kind == 'send':
            if c['pstate'] == 'open':
                n, cuts, between = arg
                data = payload(i, c['off'], n)
                c['off'] += n
                tr('conn%d: peer sends %d bytes%s' % (i, n, ' in pieces cut at %r' % (cuts,) if cuts else ''))
                last = 0
                for cut in cuts + [n]:
                    if cut > last:
                        c['peer'].send(data[last:cut])
                        last = cut
                        if between and cut < n:
                            S.step()
        elif kind in ('srv_write', 'srv_big'):
            if c['rec'] is not None:
                server_write(c['rec'], payload(i + 100, c['wrote'], arg), 'server')
                c['wrote'] += arg
        elif kind == 'srv_close':
            rec = c['rec']
            if rec is not None:
                if 'late-close' in skip_late and (rec['ndisc'] or rec['close_issued'] or not st['settled'] or c['pstate'] != 'open' or rec['sid'] in S.pol.fatal):
                    tr('server: close that would (or could) arrive after the closure skipped (known finding avoided)')
                    rec = None
                elif rec['ndisc']:
                    ctx.stat('late-close')
                    tr('server: LATE close(%s) (disconnect already observed)' % cname(rec))
                else:
                    rec['close_issued'] = True
                    if rec['issued'] > len(rec['sock'].sim_sent):
                        rec['deferred'] = True
                        ctx.stat('close-deferred-by-buffer')
                    tr('server: close(%s)' % cname(rec))
                if rec is not None:
                    ctx.log('srv-close', i, bool(rec['ndisc']))
                    m.fire(NE.close(rec['sock']), srv.channel)
        elif kind == 'peer_close':
            if c['pstate'] in ('open', 'half'):
                end_peer(c, True)
        elif kind in ('abort', 'connect_reset'):      # (connect_reset on an established connection = plain abort)
            if c['pstate'] in ('open', 'half'):
                end_peer(c, False)
        elif kind == 'half_close':
            if c['pstate'] == 'open':
                c['peer'].pump()
                c['peer'].shutdown_wr()
                c['pstate'] = 'half'
                c['end'] = 'half'
                ctx.stat('half-close')
                tr('conn%d: peer shuts down its write side (FIN)' % i)
        elif kind == 'toggle_read':
            c['reading'] = not c['reading']
            tr('conn%d: peer %s reading' % (i, 'resumes' if c['reading'] else 'stops'))

    try:
        S.quiesce(pump)
        tr('%s on %r, bufsize=%d, SO_SNDBUF=%s, faults=%s rate 1/%d' % (type(srv).__name__, addr, plan['bufsize'], plan['sndbuf'] or 'default',
                                                                      ','.join(plan['kinds']) or 'none', plan['rate']))
        for no, act in enumerate(plan['acts']):
            do(no, act)
        S.quiesce(pump)
        checks(-1)
        # ---- final phase: every peer goes away; then each accepted connection must have had exactly one disconnect
        if plan['close_all']:
            tr('server: close() of everything including the listening socket')
            for rec in recs.values():
                if not rec['ndisc']:
                    rec['close_issued'] = True
            st['listening'] = False
            m.fire(NE.close(), srv.channel)
            S.quiesce(pump)
        for c in conns:
            if c['pstate'] in ('open', 'half'):
                end_peer(c, True)
        S.quiesce(pump)
        checks(-2)
        for c in conns:
            if c.get('srv_sid') in S.pol.unannounced:
                # reset before accept and getpeername() failed: the connection may stay unannounced altogether (weaker reading, see ASSUMPTIONS);
                # a disconnect / read without connect was judged online by the observer
                ctx.stat('reset-before-accept-unannounced')
                ctx.state((S.name, 'reset-before-accept', c['rec'] is not None))
                if c['rec'] is None:
                    continue
            if c['pstate'] == 'closed' and c['end'] != 'refused' and c['rec'] is None and not plan['close_all']:
                fail('C12/connect/missing', 'conn%d: the peer\'s connection was established (and later %s) but no connect event was ever observed' % (c['idx'], c['end']))
        for rec in recs.values():
            if rec['ndisc'] != 1:
                c = rec['conn']
                fail('C12/disconnect/missing/%s' % ('fault' if rec['sid'] in S.pol.fatal else 'server-close' if rec['close_issued'] else c['end'] if c else 'unknown'),
                     '%s: connect observed, the peer is gone and the loop is quiescent, but no disconnect event was observed' % cname(rec))
    except Stop:
        pass
    finally:
        NET.oplog = None
    ctx.sim_time += W.now - S.t0
    full = [r for r in recs.values() if r['ndisc'] == 1 and r['reads']]
    return dict(S=S, snaps=snaps, full=len(full), fatal=S.faulted(),
                summary='%d connection(s), %d with connect+read+disconnect, %d exception event(s): ok' % (len(recs), len(full), S.exceptions))


def compare(ctx, results):
    """ "whichever poller is used": the same history must give the same per-connection streams (checked after every step)."""
    names = [r['S'].name for r in results]
    ctx.stat('pollers-compared')
    nsteps = max(len(r['snaps']) for r in results)
    for stepno in range(nsteps):
        rows = [r['snaps'][stepno] if stepno < len(r['snaps']) else () for r in results]
        for ci in range(max(len(row) for row in rows)):
            vals = [row[ci] if ci < len(row) else (None, None, None, None) for row in rows]
            for f, col in (('connect', [v[0] for v in vals]), ('read', [(v[1], v[2]) for v in vals]), ('disconnect', [v[3] for v in vals])):
                if all(x == col[0] for x in col):
                    continue
                odd = [names[j] for j in range(len(col)) if col.count(col[j]) == 1]
                who = '-vs-'.join(names) if len(col) < 3 else odd[0] if len(odd) == 1 else 'all-differ'
                ctx.violation('C12/pollers-disagree/%s/%s' % (f, who), 'same history, after step %d, connection %d: %s' % (
                    stepno, ci, '; '.join('%s: %s=%r' % (n, f, x) for n, x in zip(names, col))))
                return


# ----------------------------------------------------------------------------------------------------------------------
# client mode

def gen_client_plan(ch, cfg):
    plan = dict(bufsize=ch.choice([4096, 64, 3], 'bufsize'), order=ch.permute([0, 1, 2], 'poller-order'))
    plan['kinds'] = ch.subset(FAULTS[:6] + ['poll_eintr', 'connect_delay'], 'fault-kind') if ch.chance(2, 3, 'faulty') else []
    plan['rate'] = ch.choice([4, 8, 16], 'fault-rate')
    acts = []
    for _ in range(ch.randint(2, cfg['max_actions'], 'nactions')):
        k = ch.weighted([3, 5, 3, 3, 1, 1, 3, 1, 1, 2], 'action')
        kind = ['connect', 'psend', 'cwrite', 'pclose', 'pabort', 'phalf', 'cclose', 'toggle_read', 'cbig', 'cclose_writing_pgone'][k]
        arg = ch.choice(SIZES, 'nbytes') if kind in ('psend', 'cwrite') else cfg['big'] if kind == 'cbig' else None
        acts.append((kind, arg, ch.weighted([10, 1, 1], 'settle-mode')))
    plan['acts'] = acts
    return plan


def run_client(ctx, plan, P, skip_uwrite):
    cfg_big = ctx.cfg['big']
    S = Sub(ctx, P, plan['kinds'], plan['rate'])
    m, tr, fail = S.m, S.tr, S.fail
    ctx.stat('client-mode')
    lst = PeerListener(CADDR)
    cli = TCPClient(bufsize=plan['bufsize']).register(m)
    st = dict(nconn=0, ndisc=0, nread=0, sess=None, reading=True, off=0, woff=0, attempts=0, pending=False, uwrite=False, settled=True)
    snaps = []

    class CObs(Component):
        channel = cli.channel

        def connected(self, host, port):
            ctx.log('connected', host, port)
            S.nev += 1
            tr('    observer: connected %s:%s', host, port)
            st['pending'] = False
            if st['nconn'] > st['ndisc']:
                fail('C12/client/connected-twice', 'second connected event without a disconnected in between')
            st['nconn'] += 1

        def disconnected(self):
            ctx.log('disconnected')
            S.nev += 1
            tr('    observer: disconnected')
            # "client components likewise report one disconnected per connected"
            if st['ndisc'] >= st['nconn']:
                fail('C12/client/disconnected-without-connected', 'disconnected event number %d after only %d connected event(s)' % (st['ndisc'] + 1, st['nconn']))
            st['ndisc'] += 1
            ctx.state((S.name, 'client', st['sess'] is not None and st['sess'].closed, min(st['nread'], 5000) // 1000))

        @handler('write', priority=50)
        def _write_arrives(self, data):
            if not cli.connected:
                st['uwrite'] = True      # data handed to a client that is not connected (never was, or already closed)

        def unreachable(self, *a):
            ctx.log('unreachable')
            st['pending'] = False
            S.nev += 1
            tr('    observer: unreachable')

        def read(self, data):
            st['nread'] += len(data)
            S.nev += 1
            ctx.log('cread', len(data), crc(data))

        def error(self, *a):
            ctx.log('cerror')
            tr('    observer: error %r', a)

        @handler('exception', channel='*')
        def _on_exception(self, etype, value, *a, **k):
            S.exceptions += 1
            ctx.log('exception', etype.__name__)
            S.nev += 1
            tr('    observer: exception event %s: %s', etype.__name__, value)

    CObs().register(m)

    def pump():
        did = False
        if st['listening']:
            p = lst.accept()
            if p is not None:
                if st['sess'] is not None and not st['sess'].closed:
                    st['sess'].recv()
                    st['sess'].close()
                st['sess'] = p
                did = True
                tr('listener: accepted a connection from %r' % (p.remote,))
        p = st['sess']
        if p is not None and not p.closed:
            if p.out and p.pump():
                did = True
            if st['reading'] and p.recv():
                did = True
        return did
    st['listening'] = True

    def do(no, act):
        kind, arg, smode = act
        ctx.log('act', no, kind)
        p = st['sess']
        live = p is not None and not p.closed
        if kind == 'connect' or (not live and kind in ('psend', 'pclose', 'pabort', 'phalf') and st['nconn'] == st['ndisc']):
            if st['nconn'] == st['ndisc'] and not st['pending']:
                st['attempts'] += 1
                st['pending'] = True
                if st['attempts'] > 1:
                    ctx.stat('client-reconnect')
                tr('client: fire connect(%s:%d)' % CADDR)
                m.fire(NE.connect(*CADDR), cli.channel)
        elif kind == 'psend':
            if live and not getattr(p, 'half', False):
                tr('peer: sends %d bytes' % arg)
                p.send(payload(7, st['off'], arg))
                st['off'] += arg
        elif kind in ('cwrite', 'cbig'):
            if skip_uwrite and (st['nconn'] == st['ndisc'] or not st['settled'] or not live or getattr(p, 'half', False)):
                tr('client: write that would (or could) arrive while not connected skipped (known finding avoided)')
                return after(smode)
            tr('client: fire write(%d bytes)%s' % (arg, '' if st['nconn'] > st['ndisc'] else ' while not connected'))
            m.fire(NE.write(payload(9, st['woff'], arg)), cli.channel)
            st['woff'] += arg
        elif kind == 'cclose':
            tr('client: fire close()%s' % ('' if st['nconn'] > st['ndisc'] else ' while not connected'))
            m.fire(NE.close(), cli.channel)
        elif kind == 'cclose_writing_pgone':
            # mirror image of "close while the server is writing": the client has more queued than the socket takes, asks for close (deferred), the peer goes away
            if live and st['nconn'] > st['ndisc'] and st['settled'] and not getattr(p, 'half', False):
                ctx.stat('client-close-while-writing-peer-gone')
                tr('client: fire write(%d bytes), write(300 bytes), close(); one loop iteration; then the peer closes without reading' % cfg_big)
                m.fire(NE.write(payload(9, st['woff'], cfg_big)), cli.channel)
                m.fire(NE.write(payload(9, st['woff'] + cfg_big, 300)), cli.channel)
                st['woff'] += cfg_big + 300
                m.fire(NE.close(), cli.channel)
                S.partial(pump, 1)
                p.close()
        elif kind in ('pclose', 'pabort'):
            if live:
                if kind == 'pclose':
                    p.recv()
                n = unread(p)
                p.close()
                if n:
                    ctx.stat('abort')
                tr('peer: closes (%s)' % ('RESET: %d bytes unread' % n if n else 'orderly'))
        elif kind == 'phalf':
            if live and not getattr(p, 'half', False):
                p.pump()
                p.shutdown_wr()
                p.half = True
                ctx.stat('half-close')
                tr('peer: shuts down its write side (FIN)')
        elif kind == 'toggle_read':
            st['reading'] = not st['reading']
            tr('peer: %s reading' % ('resumes' if st['reading'] else 'stops'))
        after(smode)

    def after(smode):
        st['settled'] = smode == 0
        if smode == 0:
            S.quiesce(pump)
            snaps.append(((st['nconn'], st['nread'], 0, st['ndisc']),))
        else:
            ctx.stat('unsettled-action')
            S.partial(pump, 1 if smode == 1 else 0)

    try:
        S.quiesce(pump)
        tr('TCPClient against a simulated listener at %s:%d, bufsize=%d, faults=%s rate 1/%d' % (CADDR + (plan['bufsize'], ','.join(plan['kinds']) or 'none', plan['rate'])))
        for no, act in enumerate(plan['acts']):
            do(no, act)
        S.quiesce(pump)
        # final phase: the remote side goes away completely
        tr('final: listener and peer close')
        st['listening'] = False
        lst.close()
        if st['sess'] is not None and not st['sess'].closed:
            st['sess'].recv()
            st['sess'].close()
        S.quiesce(pump)
        snaps.append(((st['nconn'], 0, 0, st['ndisc']),))
        if st['nconn'] != st['ndisc']:
            fail('C12/client/disconnected-missing/%s' % ('after-write-while-not-connected' if st['uwrite'] else 'plain'), '%d connected event(s) but %d disconnected event(s) although the remote end has closed and the loop is quiescent'
                 % (st['nconn'], st['ndisc']))
    except Stop:
        pass
    ctx.sim_time += W.now - S.t0
    return dict(S=S, snaps=snaps, full=st['ndisc'] if st['nread'] else 0, fatal=S.faulted() or st['uwrite'],   # (a known trigger: not compared)
                summary='%d connected, %d disconnected, %d bytes read, %d exception event(s): ok' % (st['nconn'], st['ndisc'], st['nread'], S.exceptions))


# ----------------------------------------------------------------------------------------------------------------------

def run_one(ctx):
    world.reset(ctx)
    simnet.reset(ctx)
    try:
        _run(ctx)
    finally:
        NET.oplog = None
        NET.close_all()


def _run(ctx):
    ch = ctx.ch
    cfg = ctx.cfg
    client = ch.weighted([3, 1], 'mode') == 1
    plan = gen_client_plan(ch, cfg) if client else gen_server_plan(ch, cfg)
    # known findings whose trigger the generator must stay away from in this run
    skip_late, skip_pollers = set(), set()
    skip_uwrite = 'C12/client/disconnected-missing/after-write-while-not-connected' in ctx.avoid
    for key in ctx.avoid:
        parts = key.split('/')
        if len(parts) == 4 and parts[1] == 'residue':
            if parts[3] in ('late-write', 'late-close'):
                skip_late.add(parts[3])
            elif parts[2] == 'server._buffers':
                skip_late.add('send-fails')             # trigger: a send that fails fatally (fault, or peer gone while data is unsent)
            elif parts[2] == 'server._closeq':
                skip_late.add('recv-fails-deferred')    # trigger: recv error / reset while a close is deferred by unsent data
            elif parts[2] == 'EPoll._map':
                skip_pollers.add('EPoll')               # trigger: any disconnect under EPoll
        elif key == RESET_BEFORE_ACCEPT:
            skip_late.add('reset-before-accept')        # trigger: getpeername() fails on a socket whose peer reset before accept
    results = []
    for pi in plan['order']:
        P = POLLERS[pi]
        if P.__name__ in skip_pollers:
            continue
        r = run_client(ctx, plan, P, skip_uwrite) if client else run_server(ctx, plan, P, skip_late)
        results.append(r)
        if r['S'].failed:
            break
    failed = [r for r in results if r['S'].failed]
    settled = all(a[-1] == 0 and a[0] not in ('answer_close_talk', 'write_peer_gone') for a in plan['acts'])     # (compound actions are races by construction)
    if not failed and len(results) > 1 and settled and not any(r['fatal'] for r in results):
        compare(ctx, results)
    if ctx.keep_trace:
        ctx.trace('history (%s mode), executed under %s' % ('client' if client else 'server', ', '.join(r['S'].name for r in results)))
        shown = failed or results[:1]
        for r in results:
            if r in shown:
                for line in r['S'].lines:
                    ctx.trace(line)
            else:
                ctx.trace('[%s] same history: %s' % (r['S'].name, r['summary']))
        if ctx.violations and not failed:
            ctx.trace('VIOLATION %s: %s' % ctx.violations[0])
    if not client and len(plan['conns']) > 1:
        ctx.stat('multi-conn')
    interesting = client or any(a[0] in ('srv_write', 'srv_close', 'abort', 'half_close', 'toggle_read', 'srv_big', 'connect_reset') for a in plan['acts']) or \
        any(k.startswith('fault:') for k in ctx.stats)
    ctx.nontrivial = bool(results) and all(r['full'] > 0 for r in results) and bool(interesting)
