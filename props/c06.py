"""C06 - call()/wait() resume the caller exactly once with the result, leaving no residue.

Engine: SimLoop (single thread).  The harness keeps the root manager "running" and drives it with tick(0), so every
loop iteration fires generate_events (the timeout tick of waitEvent) and never blocks.  Workload: generated acyclic call
programs over event types t0..t7 (handlers return, raise, yield values, pause, or `x = yield call(e)/wait(e|name)`,
sequentially and nested to depth 4, with timeouts), several roots in flight, task order and handler tie order from the tape.

Oracle: every generated handler writes a ghost log (begin / value / end / raise per handler instance, suspend / resume per
call site); each resumption is judged online against that log, the roots' Values against refs/call_eval.py at the end.

Liveness bound (the statement promises resumption): after the last external fire every site must have been resumed and
every handler finished within L = sum over roots of call_eval.cost(root type) + 20 loop iterations (cost counts every
handler step, 8 iterations overhead per call site, the full timeout of every timed site and the full expansion of every
callee one after the other, although the loop overlaps them).  Residue is read 6 iterations after that point.
"""
import traceback

from simcore import world
from simcore.world import W

from refs import call_eval as CE

from circuits import BaseComponent, Event, handler
from circuits.core.manager import TimeoutError as CTimeoutError
from circuits.core.values import Value

ID = 'C06'
LEVEL = 'exploration'
ENGINE = 'SimLoop'
LEVEL_TEXT = ('seeded exploration of generated call programs x schedules on the real Manager (waitEvent/callEvent/processTask/'
              '_dispatcher/tick unmodified): every resumption is judged online against a ghost log written by the generated handlers, '
              'root Values against a synchronous reference evaluator; sampling, not proof')
LEVEL_NOTE = ('trusted: the ghost log written by the generated handlers, refs/call_eval.py (60 lines), a global observer handler, CPython. '
              'Time is counted in loop iterations (tick(0) calls); no virtual seconds pass, so simulated_time_s is 0 by construction')
RULE = ('each run = generated program (2-8 event types in 5 levels, 0-3 handlers per type on 1-3 components: plain return / raise, or '
        'generators of pause / value / raise / call-site steps; sites = call(obj), fire+wait(obj), fire+wait(name), wait on a never-fired '
        'event; timeouts none/0/1/2/5/50) + 1-4 root events fired between ticks, task order and handler tie order drawn from the tape; '
        'non-trivial = at least one call/wait site was suspended and resumed; distinct = distinct digest of the full ghost log')
STATE_MEASURE = '(site mode, timeout, outcome, iterations suspended (capped), callee handler count, callee raised, nesting depth) per resumed site'
REAL = ['circuits.core.manager.Manager (waitEvent/callEvent/processTask/registerTask/_dispatcher/_eventDone/tick/flush/addHandler/removeHandler)',
        'circuits.core.components.BaseComponent', 'circuits.core.handlers.handler', 'circuits.core.events.Event/generate_events',
        'circuits.core.values.Value', 'circuits.core.helpers.FallBackGenerator']
STUBBED = ['handler tie-break order and task stepping order (tape, through the Manager.getHandlers / _tasks seams)',
           'the main loop: the harness sets root._running = True and calls tick(0) itself instead of run() (generate_events fires every '
           'iteration with time_left 0, the idle wait is never entered)', 'threading.Event in core.helpers (virtual, never waited on here)']
ASSUMPTIONS = [
    'single channel "*" everywhere (channel matching is C01\'s subject)',
    'a "loop iteration" is one tick() of the root; a timed site suspended in iteration k may be resumed with TimeoutError in iteration r iff r - k >= timeout '
    '(weaker reading: the iteration of suspension counts)',
    'wait(e) is always issued in the same handler step that fired e (a wait on an event that was already dispatched is not covered by the statement); '
    'waits on a never-fired event are only generated with a timeout',
    'wait(name) may be bound to any event instance of that name; the oracle takes the instance from the Value the handler received and only demands '
    'that it has that name and that all of its handlers had finished',
    'results are produced with `yield v` (a generator\'s `return v` is discarded by the loop); values are compared as multisets (C04 owns the order)',
    'success/complete of the caller\'s own event are only demanded when no handler of that event raised (failure semantics are C04\'s)',
    'residue = root._tasks and the per-component _handlers/_globals tables (names -> counts); attributes left on components by addHandler are ignored',
]
PROBES = ['site:call', 'site:waitobj', 'site:waitname', 'site:never', 'outcome:result', 'outcome:timeout', 'outcome:result-on-timed-site',
          'depth>=3', 'callee-plain-raised', 'callee-gen-raised', 'roots-in-flight>=2', 'byname-bound-to-foreign-instance',
          'done-near-timeout', 'callee-without-handlers', 'two-handlers-resumed-by-one-event']
TIERS = {
    'quick': dict(runs=120000, wall=28, chunk=100, cfg=dict(max_types=8, size_cap=10, max_roots=3, max_ops=4)),
    'thorough': dict(runs=3000000, wall=600, chunk=500, cfg=dict(max_types=8, size_cap=24, max_roots=4, max_ops=6)),
}

TIMEOUTS = [None, 0, 1, 2, 5, 50]
BIG = 50

K_GEN_RAISED = 'C06/liveness/never-resumed/callee-generator-raised'
K_NEVER = 'C06/residue/event-handler/never-dispatched-event'
K_COINCIDE = 'C06/caller-completes/foreign-exception/KeyError/done-and-timeout-coincide'
K_PAUSE_AFTER_TIMEOUT = 'C06/caller-completes/handler-abandoned/pause-directly-after-timeout'
K_SITE_AFTER_TIMEOUT = 'C06/resumed-once/site-directly-after-timeout'
# finding key -> generator trigger that is switched off when the key is in ctx.avoid
AVOID = {K_GEN_RAISED: 'gen-raise', K_NEVER: 'never', K_COINCIDE: 'coincide', K_PAUSE_AFTER_TIMEOUT: 'after-timeout', K_SITE_AFTER_TIMEOUT: 'after-timeout'}


class SimBoom(Exception):
    """The programmed failure of a generated handler."""


def pstr(path):
    return '.'.join(map(str, path))


def level(i):
    return (i + 1) // 2


def gen_program(ch, cfg, av):
    """Draw a program; types are generated from the deepest level upwards so expansion sizes are known when a site is added."""
    nt = ch.randint(2, cfg['max_types'], 'ntypes')
    ncomp = ch.randint(1, 3, 'ncomp')
    names = ['t%d' % i for i in range(nt)]
    prog = dict(names=names, handlers={}, complete={}, ncomp=ncomp)
    hid = 0
    smemo, cmemo = {}, {}
    for i in reversed(range(nt)):
        name = names[i]
        targets = [names[j] for j in range(i + 1, nt) if level(j) > level(i)]
        hs = prog['handlers'][name] = []
        prog['complete'][name] = bool(ch.draw(2, 'complete'))
        cursize = 1
        for _ in range([1, 2, 0, 3][ch.weighted([5, 3, 1, 1], 'nhandlers')]):
            hid += 1
            kind = ch.weighted([3, 6, 1, 1], 'hkind')
            comp = ch.draw(ncomp, 'hcomp')
            if kind == 0:
                ops = [('ret', 'v%d' % hid)]
            elif kind == 2:
                ops = [('raise',)]
            elif kind == 3:
                ops = [('ret', None)]
            else:
                ops = []
                for _ in range(ch.randint(1, cfg['max_ops'], 'nops')):
                    k = ch.weighted([3, 2, 5, 0 if 'gen-raise' in av else 1], 'op')
                    if k == 0:
                        ops.append(('pause',))
                    elif k == 1:
                        ops.append(('val', 'v%d.%d' % (hid, len(ops))))
                    elif k == 3:
                        ops.append(('raise',))
                        break
                    else:
                        mode = ['call', 'waitobj', 'waitname', 'never'][ch.weighted([5, 2, 3, 0 if 'never' in av else 1], 'mode')] if targets else 'none'
                        if mode == 'none':   # deepest level: mostly plain steps, sometimes a wait on something that never comes
                            mode = 'never' if ch.draw(4, 'leaf-never') == 3 else 'pause'
                        if mode == 'pause':
                            ops.append(('pause',))
                            continue
                        if mode == 'never':
                            if 'never' in av:
                                ops.append(('pause',))
                                continue
                            target = None if ch.draw(2, 'never-kind') == 0 else 'obj'
                            timeout = [0, 1, 2, 5, BIG][ch.weighted([2, 3, 3, 2, 1], 'never-timeout')]
                        else:
                            target = ch.choice(targets, 'target')
                            if cursize + CE.size(prog, target, smemo) > cfg['size_cap']:
                                ops.append(('pause',))
                                continue
                            cursize += CE.size(prog, target, smemo)
                            timeout = TIMEOUTS[ch.weighted([4, 2, 3, 3, 2, 1], 'timeout')]
                            if 'coincide' in av and timeout and not far_apart(prog, target, timeout, cmemo):
                                timeout = None
                        ops.append(('site', mode, target, timeout, bool(ch.draw(2, 'use'))))
                if 'after-timeout' in av:
                    # after a TimeoutError the handler must go on with a value or end (the `use` step yields a value)
                    for i, op in enumerate(ops[:-1]):
                        if op[0] == 'site' and op[3] is not None and ops[i + 1][0] in ('pause', 'site'):
                            ops[i] = op[:4] + (True,)
            hs.append(dict(hid=hid, ops=ops, comp=comp, gen=(kind == 1)))
    return prog


def far_apart(prog, target, timeout, cmemo):
    """Avoidance predicate for K_COINCIDE: can the callee's done notification meet the timeout counter at 0?  The callee is done either
    well before (plain handlers only: 2 iterations) or well after (some generator handler with more steps than the timeout), or the
    timeout is longer than everything the callee can do."""
    hs = prog['handlers'][target]
    if not any(h['gen'] for h in hs):
        return timeout >= 5
    if timeout == BIG:
        return CE.cost(prog, target, cmemo) + 10 < BIG
    return any(h['gen'] and len(h['ops']) > timeout + 1 for h in hs)


def describe(prog, root_types):
    out = []
    reach, todo = set(), list(root_types)
    while todo:
        n = todo.pop()
        if n not in reach:
            reach.add(n)
            todo += [op[2] for h in prog['handlers'][n] for op in h['ops'] if op[0] == 'site' and op[2] in prog['handlers']]
    for name in prog['names']:
        if name not in reach:
            continue
        for h in prog['handlers'][name]:
            steps = []
            for op in h['ops']:
                if op[0] == 'site':
                    _, mode, target, timeout, use = op
                    to = '' if timeout is None else ', timeout=%d' % timeout
                    expr = {'call': 'call(%s()%s)', 'waitobj': 'fire(e=%s()); wait(e%s)', 'waitname': 'fire(%s()); wait(<name>%s)',
                            'never': 'wait(<never fired %s>%s)'}[mode] % (target if mode != 'never' else 'event object' if target else 'name', to)
                    steps.append('x=yield %s%s' % (expr, '; yield f(x)' if use else ''))
                elif op[0] == 'val':
                    steps.append('yield %r' % op[1])
                elif op[0] == 'ret':
                    steps.append('return %r' % (op[1],))
                else:
                    steps.append(op[0])
            out.append('program: %s%s handler h%d on C%d (%s): %s' % (name, ' [complete]' if prog['complete'][name] else '', h['hid'], h['comp'],
                                                                    'generator' if h['gen'] else 'plain', ' | '.join(steps)))
        if not prog['handlers'][name]:
            out.append('program: %s has no handlers' % name)
    return out


def runtime_items(value):
    """Value.value as observed -> list of value strings (exc_info tuples -> 'ERR:<message>')."""
    if value is None:
        return []
    items = value if isinstance(value, list) else [value]
    out = []
    for v in items:
        if isinstance(v, tuple) and len(v) == 3 and isinstance(v[1], BaseException):
            out.append('ERR:%s' % (v[1],) if isinstance(v[1], SimBoom) else 'ERR:<%s>' % type(v[1]).__name__)
        elif isinstance(v, str):
            out.append(v)
        else:
            out.append('<%s>' % type(v).__name__)
    return out


def tables(comps):
    """Residue clause: per-component handler tables (event name -> number of handlers) and global handlers, read by name."""
    out = {}
    for i, c in enumerate(comps):
        try:
            hs, gl = c._handlers, c._globals
        except AttributeError as e:  # the anchored private name disappeared: the residue clause cannot be observed any more
            raise RuntimeError('C06 residue oracle: Manager attribute vanished: %s' % e)
        for name, s in hs.items():
            out[(i, name)] = len(s)
        out[(i, '<globals>')] = len(gl)
    return out


def run_one(ctx):
    ch = ctx.ch
    world.reset(ctx)
    cfg = ctx.cfg
    av = {trig for key, trig in AVOID.items() if key in ctx.avoid}
    prog = gen_program(ch, cfg, av)
    names = prog['names']
    declared = {n: [h['hid'] for h in prog['handlers'][n]] for n in names}
    root_types = [ch.choice(names, 'root-type') for _ in range(ch.randint(1, cfg['max_roots'], 'nroots'))]
    if ctx.keep_trace:
        for line in describe(prog, root_types):
            ctx.trace(line)

    st = dict(tick=0, seq=0, harness_error=None)
    ev = {}       # path -> dict(name, obj, disp, kids={kind: [seq]}, root)
    inst = {}     # (path, hid) -> dict(state, vals, raised, site, last, nsites, end)
    sites = {}    # (path, hid, idx) -> dict(k, t, mode, target, ev, resumed, outcome)
    outcome, binding = {}, {}
    classes = {n: type(n, (Event,), dict(success=True, complete=prog['complete'][n])) for n in names}

    def nseq():
        st['seq'] += 1
        return st['seq']

    def viol(key, detail):
        ctx.trace('!! %s: %s' % (key, detail))
        ctx.violation(key, detail)

    def mk(name, path, root=False):
        e = classes[name]()
        e.sim_path = path
        ev[path] = dict(name=name, obj=e, disp=None, kids={}, root=root)
        return e

    # ------------------------------------------------------------------ ghost log written by the generated handlers
    def begin(path, hid):
        rec = inst[(path, hid)] = dict(state='running', vals=[], raised=False, site=None, last='begin', prev=None, nsites=0, end=None, coincide=False)
        ctx.log('B', pstr(path), hid, st['tick'])
        ctx.trace('  %s: h%d begins' % (pstr(path), hid))
        return rec

    def finish(rec, path, hid, failed=False):
        rec['state'] = 'failed' if failed else 'done'
        rec['raised'] = failed
        rec['end'] = nseq()
        ctx.log('X' if failed else 'E', pstr(path), hid, st['tick'])
        ctx.trace('  %s: h%d %s' % (pstr(path), hid, 'RAISES' if failed else 'ends'))
        if failed:
            rec['vals'].append('ERR:' + CE.boom(hid))
            ctx.stat('callee-gen-raised' if rec.get('gen') else 'callee-plain-raised')
            raise SimBoom(CE.boom(hid))

    def shaped(recs, key, detail):
        """Name the finding by the shape of the history when the ghost log shows one of the two shapes that explain surplus or
        misdirected resumptions (key naming only - the verdict is the caller's)."""
        if key == K_COINCIDE[:len(key)] and any(r['coincide'] for r in recs):
            return viol(K_COINCIDE, detail + ' [a timed call/wait of this handler got its event\'s done notification in the very iteration its timeout '
                                             'ran out: the TimeoutError was delivered and the result task then failed inside the loop]')
        if any(r['state'] == 'running' and r['site'] is not None and r['prev'] == 'timeout' for r in recs):
            return viol(K_SITE_AFTER_TIMEOUT, detail + ' [the handler went from a TimeoutError straight into its next call/wait]')
        return viol(key, detail)

    def extra_resume(rec, path, hid, where, what):
        """A resumption that no open call/wait site accounts for."""
        if isinstance(what, CTimeoutError):
            shaped([rec], 'C06/resumed-once/extra-TimeoutError',
                   '%s h%d received TimeoutError %s (no call/wait with a due timeout is open there)' % (pstr(path), hid, where))
        elif isinstance(what, BaseException):
            shaped([rec], 'C06/resumed-once/exception-thrown-into-handler/%s' % type(what).__name__, '%s h%d received %r %s' % (pstr(path), hid, what, where))
        else:
            shaped([rec], 'C06/resumed-once/extra-result', '%s h%d was sent %s %s' % (pstr(path), hid, type(what).__name__, where))

    def gy(rec, path, hid, v):
        """`yield v` of a generated handler, guarded: nothing may be thrown or sent into a plain yield."""
        if v is not None:
            rec['vals'].append(v)
            ctx.log('V', pstr(path), hid, v, st['tick'])
        rec['prev'], rec['last'] = rec['last'], 'pause' if v is None else 'val'
        try:
            r = yield v
        except Exception as exc:
            extra_resume(rec, path, hid, 'at a plain yield', exc)
            return False
        if r is not None:
            extra_resume(rec, path, hid, 'at a plain yield', r)
            return False
        return True

    def event_result(path):
        """(value strings, errors, unfinished handler ids) of the event at `path` according to the ghost log."""
        vals, err, unfinished = [], False, []
        for hid in declared[ev[path]['name']]:
            rec = inst.get((path, hid))
            if rec is None or rec['state'] == 'running':
                unfinished.append(hid)
                continue
            vals += rec['vals']
            err = err or rec['raised']
        return vals, err, unfinished

    def resume(rec, path, hid, idx, s, how, x):
        """Online oracle for one resumption of site s (how = 'result' | 'timeout')."""
        now = st['tick']
        where = '%s h%d site %d (%s %s, timeout %s, suspended in iteration %d, now %d)' % (pstr(path), hid, idx, s['mode'], s['target'], s['t'], s['k'], now)
        # "resumed exactly once": the generator is sequential, so a site can only be left once; surplus resumptions show up at later points
        s['resumed'] += 1
        s['outcome'] = how
        if how == 'timeout':
            # "... or, no earlier than after the given number of loop iterations, with TimeoutError"
            if s['t'] is None:
                return extra_resume(rec, path, hid, 'at call/wait site %d which has no timeout' % idx, x)
            if now - s['k'] < s['t']:
                return shaped([rec], 'C06/timeout/early', 'TimeoutError after %d iterations: %s' % (now - s['k'], where))
            ctx.stat('outcome:timeout')
            cands = [s['ev'].sim_path] if s['ev'] is not None else [p for p, d in ev.items() if d['name'] == s['target']]
            if any(q > s['seq'] for p in cands for q in ev[p]['kids'].get('done', ())):
                rec['coincide'] = True     # timed out although the done notification of the event (of an event of that name) had been dispatched (key naming only)
            res = 'TIMEOUT'
        else:
            # "... and receives e's result and error flag"
            if not isinstance(x, Value):
                return shaped([rec], 'C06/resumed/without-result', 'resumed with %r instead of the event\'s Value: %s' % (x, where))
            e = x.event
            bpath = getattr(e, 'sim_path', None)
            if s['mode'] == 'never' or bpath is None or bpath not in ev:
                return viol('C06/result/unknown-event', 'resumed with the Value of %r: %s' % (e, where))
            if s['mode'] in ('call', 'waitobj'):
                if e is not s['ev']:
                    return viol('C06/result/other-event', 'resumed with the Value of %s, an event other than the one called/waited for: %s' % (pstr(bpath), where))
            elif e.name != s['target']:
                return viol('C06/result/other-event-name', 'wait(%r) resumed with the Value of %s (%s): %s' % (s['target'], pstr(bpath), e.name, where))
            if bpath != path + (hid, idx):
                ctx.stat('byname-bound-to-foreign-instance')
            binding[(path, hid, idx)] = bpath
            if any(b == bpath for k2, b in binding.items() if k2 != (path, hid, idx)):
                ctx.stat('two-handlers-resumed-by-one-event')
            # "... only after every handler of e (including suspended ones and their own nested calls) has finished or failed"
            vals, err, unfinished = event_result(bpath)
            if unfinished:
                return viol('C06/resumed/before-callee-finished', 'handlers %r of %s (%s) have not finished: %s' % (unfinished, pstr(bpath), e.name, where))
            got = CE.canon(runtime_items(x.value), bool(x.errors))
            want = CE.canon(vals, err)
            if got != want:
                return viol('C06/result/errors-flag' if got.lstrip('!') == want.lstrip('!') else 'C06/result/value',
                            'received %s, the handlers of %s produced %s: %s' % (got, pstr(bpath), want, where))
            ctx.stat('outcome:result')
            if s['t'] is not None:
                ctx.stat('outcome:result-on-timed-site')
                if now - s['k'] >= s['t']:
                    rec['coincide'] = True  # result although the timeout had run out (key naming only)
                if abs((now - s['k']) - s['t']) <= 2:
                    ctx.stat('done-near-timeout')
            if not declared[e.name]:
                ctx.stat('callee-without-handlers')
            res = got
        outcome[(path, hid, idx)] = how
        rec['site'] = None
        rec['last'] = how
        depth = (len(path) - 1) // 2 + 1
        if depth >= 3:
            ctx.stat('depth>=3')
        ctx.state((s['mode'], -1 if s['t'] is None else s['t'], how, min(now - s['k'], 8), len(declared.get(s['target'], ())), res.startswith('!'), depth))
        ctx.log('R', pstr(path), hid, idx, how, now, res)
        ctx.trace('  %s: h%d site %d resumed in iteration %d with %s' % (pstr(path), hid, idx, now, res))
        return res

    def make_plain(h):
        hid, op = h['hid'], h['ops'][0]

        def f(self, event, *args, **kwargs):
            try:
                path = event.sim_path
                rec = begin(path, hid)
                if op[0] == 'raise':
                    finish(rec, path, hid, failed=True)
                if op[1] is not None:
                    rec['vals'].append(op[1])
                finish(rec, path, hid)
                return op[1]
            except SimBoom:
                raise
            except BaseException:
                st['harness_error'] = traceback.format_exc()
                raise
        return f

    def make_gen(h):
        hid, ops = h['hid'], h['ops']

        def body(self, event):
            path = event.sim_path
            rec = begin(path, hid)
            rec['gen'] = True
            for idx, op in enumerate(ops):
                if ctx.violations:
                    return
                k = op[0]
                if k == 'pause' or k == 'val':
                    if not (yield from gy(rec, path, hid, op[1] if k == 'val' else None)):
                        return
                elif k == 'raise':
                    finish(rec, path, hid, failed=True)
                else:
                    _, mode, target, timeout, use = op
                    kw = {} if timeout is None else dict(timeout=timeout)
                    cpath = path + (hid, idx)
                    e = None
                    if mode == 'call':
                        e = mk(target, cpath)
                        expr = self.call(e, **kw)
                    elif mode == 'waitobj':
                        e = mk(target, cpath)
                        self.fire(e)
                        expr = self.wait(e, **kw)
                    elif mode == 'waitname':
                        self.fire(mk(target, cpath))
                        expr = self.wait(target, **kw)
                    elif target == 'obj':
                        expr = self.wait(Event.create('never'), **kw)
                    else:
                        expr = self.wait('never', **kw)
                    s = sites[(path, hid, idx)] = dict(k=st['tick'], seq=nseq(), t=timeout, mode=mode, target=target, ev=e, resumed=0, outcome=None)
                    rec['site'] = idx
                    rec['prev'], rec['last'] = rec['last'], 'site'
                    rec['nsites'] += 1
                    ctx.stat('site:' + mode)
                    ctx.log('S', pstr(path), hid, idx, mode, str(target), -1 if timeout is None else timeout, st['tick'])
                    ctx.trace('  %s: h%d site %d suspends on %s %s%s' % (pstr(path), hid, idx, mode, target if e is None else '%s as %s' % (target, pstr(cpath)),
                                                                       '' if timeout is None else ' timeout=%d' % timeout))
                    try:
                        x = yield expr
                        how = 'result'
                    except CTimeoutError as exc:
                        x, how = exc, 'timeout'
                    except Exception as exc:
                        extra_resume(rec, path, hid, 'at call/wait site %d' % idx, exc)
                        return
                    res = resume(rec, path, hid, idx, s, how, x)
                    if res is None or ctx.violations:
                        return
                    if use and not (yield from gy(rec, path, hid, CE.site_value(hid, idx, res))):
                        return
            finish(rec, path, hid)

        def f(self, event, *args, **kwargs):
            return guarded(body(self, event))
        return f

    def guarded(g):
        """Run a generated generator; anything but the programmed failure escaping from it is a harness bug, not a finding."""
        try:
            yield from g
        except (SimBoom, GeneratorExit):
            raise
        except BaseException:
            st['harness_error'] = traceback.format_exc()
            raise

    # ------------------------------------------------------------------ components
    ns = [dict() for _ in range(prog['ncomp'])]
    for name in names:
        for h in prog['handlers'][name]:
            f = make_gen(h) if h['gen'] else make_plain(h)
            f.__name__ = 'h%d' % h['hid']
            ns[h['comp']][f.__name__] = handler(name)(f)

    def observe(event, name, args, kwargs):
        path = getattr(event, 'sim_path', None)
        if path is not None:
            ev[path]['disp'] = nseq()
            ctx.log('D', pstr(path), st['tick'])
            ctx.trace('  dispatch %s %s' % (name, pstr(path)))
            return
        ppath = getattr(event.parent, 'sim_path', None)
        if ppath is not None:
            kind = name[len(event.parent.name) + 1:]
            ev[ppath]['kids'].setdefault(kind, []).append(nseq())
            ctx.log('c', pstr(ppath), kind, st['tick'])
            ctx.trace('  dispatch %s for %s' % (name, pstr(ppath)))
        elif name == 'exception':
            fe = kwargs.get('fevent')
            fpath = getattr(fe, 'sim_path', None)
            hnd = kwargs.get('handler')
            ctx.trace('  exception event: %s%r from %s while handling %s' % (args[0].__name__, args[1].args, getattr(hnd, '__name__', 'a task step'),
                                                                           pstr(fpath) if fpath else getattr(fe, 'name', fe)))
            if fpath is not None and not isinstance(args[1], SimBoom) and not st['harness_error'] and not ctx.violations:
                recs = [r for (p, _h), r in sorted(inst.items()) if p == fpath]
                if isinstance(args[1], CTimeoutError):
                    # a second resumption that did not even reach the handler (it had finished, or the loop lost track of it)
                    shaped(recs, 'C06/resumed-once/extra-TimeoutError',
                           'a TimeoutError could not be delivered to a handler of %s and was recorded as that event\'s error' % pstr(fpath))
                else:
                    # "the caller's own event then completes as if the handler had run synchronously (value set ...)"
                    shaped(recs, 'C06/caller-completes/foreign-exception/%s' % type(args[1]).__name__,
                           '%s%r raised inside the loop while stepping a handler of %s was recorded as that event\'s value/error although no handler raised it'
                         % (type(args[1]).__name__, args[1].args, pstr(fpath)))

    class Obs(BaseComponent):
        @handler(priority=1e18, channel='*')
        def _sim_obs(self, event, *args, **kwargs):
            if event.name != 'generate_events':
                try:
                    observe(event, event.name, args, kwargs)
                except BaseException:
                    st['harness_error'] = traceback.format_exc()
                    raise

    comps = [type('C%d' % i, (BaseComponent,), ns[i])() for i in range(prog['ncomp'])]
    root = comps[0]
    for i, c in enumerate(comps[1:], 1):
        c.register(comps[ch.draw(i, 'parent')])
    obs = Obs().register(root)
    root._running = True

    def tick():
        st['tick'] += 1
        if st['tick'] > 4:
            ctx.trace('-- iteration %d' % st['tick'])
        root.tick(0)
        if st['harness_error']:
            raise RuntimeError('exception inside a generated handler (harness bug):\n' + st['harness_error'])

    for _ in range(4):
        tick()
    if len(root) or len(root._tasks):
        raise RuntimeError('setup did not settle')
    initial = tables(comps + [obs])

    # ------------------------------------------------------------------ history: roots fired between iterations
    roots = []
    bound = 20
    cmemo = {}
    for r, name in enumerate(root_types):
        e = mk(name, (r,), root=True)
        ctx.log('F', r, name, st['tick'])
        ctx.trace('fire root %d: %s' % (r, name))
        roots.append((r, name, ch.choice(comps, 'firer').fire(e)))
        bound += CE.cost(prog, name, cmemo)
        if any(i['state'] == 'running' for i in inst.values()):
            ctx.stat('roots-in-flight>=2')
        for _ in range(ch.weighted([3, 3, 2, 1, 1], 'ticks-between')):
            if not ctx.violations:
                tick()

    def settled():
        return (not len(root) and all(d['disp'] for d in ev.values()) and all(i['state'] != 'running' for i in inst.values())
                and all(len([1 for hid in declared[d['name']] if (p, hid) in inst]) == len(declared[d['name']]) for p, d in ev.items()))

    used = 0
    while not ctx.violations and not settled() and used < bound:
        tick()
        used += 1
    live = settled()
    if not ctx.violations:
        for _ in range(6):
            tick()
    ctx.log('Q', st['tick'], live)
    ctx.sim_time = W.now - world.EPOCH
    ctx.nontrivial = any(s['resumed'] for s in sites.values())
    if ctx.violations:
        return

    # ------------------------------------------------------------------ end of run: liveness, values, feedback events, residue
    if not live:
        # "is resumed exactly once": a site whose event has finished all its handlers and that is still suspended after the bound
        for (p, hid, idx), s in sorted(sites.items()):
            if s['resumed']:
                continue
            where = '%s h%d site %d (%s %s, timeout %s) suspended in iteration %d, not resumed by iteration %d (bound %d after the last fire)' % (
                pstr(p), hid, idx, s['mode'], s['target'], s['t'], s['k'], st['tick'], bound)
            if s['t'] is not None:
                return viol('C06/liveness/timed-site-never-resumed', where)
            if s['ev'] is not None:
                tp = s['ev'].sim_path
                vals, err, unfinished = event_result(tp)
                if not unfinished:
                    genraised = any(inst[(tp, h)]['raised'] and inst[(tp, h)].get('gen') for h in declared[ev[tp]['name']])
                    return viol('C06/liveness/never-resumed/' + ('callee-generator-raised' if genraised else 'callee-finished'),
                                'all handlers of %s have finished%s; %s' % (pstr(tp), ' (a generator handler raised)' if genraised else '', where))
        # by-name waits: some instance of that name has finished after the suspension
        for (p, hid, idx), s in sorted(sites.items()):
            if not s['resumed'] and s['mode'] == 'waitname':
                own = p + (hid, idx)
                if not event_result(own)[2]:
                    genraised = any(inst[(own, h)]['raised'] and inst[(own, h)].get('gen') for h in declared[ev[own]['name']])
                    return viol('C06/liveness/never-resumed/' + ('callee-generator-raised' if genraised else 'callee-finished'),
                                '%s h%d site %d wait(%r) never resumed although %s finished all handlers' % (pstr(p), hid, idx, s['target'], pstr(own)))
        # "the caller's own event then completes as if the handler had run synchronously": a handler that was resumed and then never stepped again
        for (p, hid), rec in sorted(inst.items()):
            if rec['state'] == 'running' and rec['site'] is None:
                return viol('C06/caller-completes/handler-abandoned/%s-directly-after-%s' % (rec['last'], rec['prev']),
                            '%s h%d is neither finished nor suspended on a call/wait: it is at a %r step that followed a %r step and is not stepped any more; '
                            'iteration %d (bound %d)' % (pstr(p), hid, rec['last'], rec['prev'], st['tick'], bound))
        return viol('C06/liveness/not-settled', 'events undispatched or handlers not started after %d iterations: %r' % (
            bound, sorted(pstr(p) for p, d in ev.items() if not d['disp'])[:5]))

    for r, name, v in roots:
        try:
            want = CE.canon(*CE.evaluate(prog, name, (r,), outcome, binding))
        except CE.Unresolved:
            continue
        got = CE.canon(runtime_items(v.value), bool(v.errors))
        ctx.log('RV', r, got)
        ctx.trace('root %d (%s) value: %s' % (r, name, got))
        if got != want:
            return viol('C06/caller-completes/root-value', 'root %d (%s): Value is %s, the synchronous evaluation of the program gives %s' % (r, name, got, want))

    for p, d in sorted(ev.items()):
        recs = [inst[(p, hid)] for hid in declared[d['name']]]
        if not any(r['nsites'] for r in recs) or any(r['raised'] for r in recs):
            continue
        last_end = max(r['end'] for r in recs)
        for kind in ['success'] + (['complete'] if prog['complete'][d['name']] else []):
            seqs = d['kids'].get(kind, [])
            if len(seqs) != 1:
                return viol('C06/caller-completes/%s-%s' % (kind, 'missing' if not seqs else 'repeated'),
                            '%s_%s of %s was dispatched %d times' % (d['name'], kind, pstr(p), len(seqs)))
            if seqs[0] < last_end:
                return viol('C06/caller-completes/%s-early' % kind, '%s_%s of %s was dispatched before its suspended handler finished' % (d['name'], kind, pstr(p)))

    # "when the system is quiescent again no temporary handlers or pending tasks remain"
    try:
        ntasks = len(root._tasks)
    except AttributeError as e:
        raise RuntimeError('C06 residue oracle: Manager attribute vanished: %s' % e)
    if ntasks or len(root):
        return viol('C06/residue/tasks', '%d task(s) and %d queued event(s) remain 6 iterations after every handler finished' % (ntasks, len(root)))
    final = tables(comps + [obs])
    if final != initial:
        extra = sorted((k, n - initial.get(k, 0)) for k, n in final.items() if n > initial.get(k, 0))
        gone = sorted((k, initial[k] - final.get(k, 0)) for k, n in initial.items() if n > final.get(k, 0))
        if gone:
            return viol('C06/residue/handler-removed', 'handlers missing from the tables: %r' % (gone,))
        (ci, name), n = extra[0]
        kind = ('done-handler' if name.endswith('_done') else 'tick-handler' if name == 'generate_events'
                else 'event-handler' if name in names or name == 'never' else 'other')
        never = any(s['mode'] == 'never' for s in sites.values())
        return viol('C06/residue/%s%s' % (kind, '/never-dispatched-event' if kind == 'event-handler' and name == 'never' and never else ''),
                    'temporary handlers left on the components: %r' % (extra,))
