"""C07 - the component tree stays a consistent forest under register/unregister.

Engine: SimLoop (single thread, managers not running; the harness calls tick()/flush() on components that are
currently roots).  A run = a pool of <= 7 real BaseComponents and a tape-drawn history of register(c, p) /
unregister(c) / fire(probe) on any component / k ticks of any current root.  The harness keeps its own model of the
forest (parent per component, set of pending unregistrations, the root whose queue holds each probe) only to
(1) enforce the statement's preconditions and (2) know which subtree was moved / detached as a whole.  The model
learns that an unregistration COMPLETED by seeing the parent link reset on the real object (that is the statement's
definition of "completed"); nothing is demanded about whether or when an unregistration completes.  register(c, p) is issued
whatever state p is in (root, nested, its own or an ancestor's unregistration pending); if it raises, the state it leaves behind
is judged like after any other step (see ASSUMPTIONS).  Announcements are matched to operations by BOTH arguments:
registered(c, p) / unregistered(c, p) with p = the model's parent of c when the operation was issued / completed.
"""
from simcore import world
from simcore.runner import HarnessLimit

from circuits import BaseComponent, Event, handler

ID = 'C07'
LEVEL = 'exploration'
ENGINE = 'SimLoop'
LEVEL_TEXT = ('seeded exploration of register/unregister/fire/tick histories over a pool of <= 7 real components; structural '
              'invariants are checked on the object graph after every single step, announcements and probe deliveries over the '
              'whole history; sampling, not proof - evidence states how many distinct histories/forest states were explored')
LEVEL_NOTE = ('trusted: the 40-line forest model (used for preconditions, for "which subtree moved" and for "which root holds '
              'the probe"), the observer handlers (priority > 0 so that they run before the library\'s own priority-0 handlers '
              'of the same event), CPython; operations are issued between ticks, never from inside a handler')
RULE = ('each run = pool of 2-7 components + 6..max_ops operations (register with precondition from the model, unregister, '
        'repeated unregister, fire probe, 1-3 ticks of any current root; the new parent of a register may itself be pending) + a final drain of all roots, all drawn from one tape; '
        'non-trivial = >= 2 registrations, >= 1 completed unregistration, >= 1 probe dispatched and at least one subtree (a '
        'component with children) was registered or detached as a whole; distinct = distinct digest of the operation/dispatch log')
STATE_MEASURE = 'forest shape after a step: (parent index per component, set of components with unregistration pending)'
REAL = ['circuits.core.components.BaseComponent (register/unregister/prepare_unregister/_do_prepare_unregister_complete/_updateRoot)',
        'circuits.core.manager.Manager (registerChild/unregisterChild/_EventQueue.drainFrom/fire/_fire/tick/flush/_dispatcher/'
        '_eventDone/getHandlers)', 'circuits.core.handlers.handler', 'circuits.core.events (Event, registered, unregistered)']
STUBBED = ['handler tie-break order (decided by the tape through the Manager.getHandlers seam)', 'nothing else: no clock, no threads']
ASSUMPTIONS = [
    'operations are issued between ticks (never from inside a handler); managers are not running, the harness ticks roots',
    '"completed unregistration" = the parent link of the component has been reset; that every unregister eventually completes is NOT '
    'demanded (unregister(parent) then unregister(child) before a tick leaves the child pending for ever: counted as '
    'obs:unregister-never-completes)',
    '"announced by exactly one event": exactly one registered(c, p) / unregistered(c, p) event object is dispatched to at least one '
    'handler somewhere by the time every root has been drained; which components see it is not judged.  The event announces the '
    'operation it NAMES: circuits documents both events as (component, manager) with manager = the component c was registered with / '
    'unregistered from, so p is the parent given to register(c, p) resp. the parent c had when its unregistration was issued and '
    'completed (it cannot change in between).  An event that names another manager (e.g. the root of the tree) or another component '
    'announces an operation that did not happen and leaves the real one unannounced: reported as announcement-names-other-manager '
    '(as many events as operations on c, wrong pair) or more-announcements-than-... (more events than operations on c)',
    'an exception out of register() is not named by the statement and is not a violation by itself (obs:register-raised); '
    'the state left behind is judged like after any step: if c.parent is p the registration counts as done (links, root, connectivity '
    'as usual; its announcement is accepted but not demanded), if c.parent is c it counts as refused (nothing moved, nothing to '
    'announce, c\'s queued probes no longer tracked), anything else fails the link / connected clauses (shape after-register-raised)',
    '"dispatched by its new root rather than lost": a probe that sat in c\'s own queue at register(c, p) must be dispatched exactly '
    'once, by the pass of the root that holds c\'s tree (the first tick of that root after the registration), not by anybody else',
    '"receives nothing further from its former tree": a handler of x is invoked during the tick of root T only if x is in T\'s tree when '
    'the dispatch of that event begins; x\'s whole detached subtree is covered, the remainder of the event during which the '
    'detachment happens is not judged (observers run before the detaching handler)',
    'while an unregistration is pending the component is still attached: root stays the old root and it still receives events',
]
PROBES = ['register-with-subtree', 'tree-depth>=3', 'register-under-nonroot', 'register-under-pending-parent',
          'unregister-completed-from-nonroot-parent', 'reregister-elsewhere', 'prereg-probe-moved', 'prereg-probe-dispatched',
          'unregister-with-subtree-completed', 'multi-unregister-before-tick', 'unregister-again-while-pending',
          'probe-dispatched-after-a-completion', 'tick-of-reattached-then-detached-root', 'obs:unregister-never-completes']
TIERS = {
    'quick': dict(runs=70000, wall=30, chunk=100, cfg=dict(max_ops=40)),
    'thorough': dict(runs=1400000, wall=600, chunk=500, cfg=dict(max_ops=60)),
}

K_STALE = 'C07/receives-from-former-tree/member-left-while-dispatcher-was-child'


class probe(Event):
    """probe(pid)"""


def run_one(ctx):
    ch = ctx.ch
    world.reset(ctx)
    avoid_stale = K_STALE in ctx.avoid
    n = 2 + ch.weighted([1, 3, 4, 4, 3, 2], 'pool-size')
    st = dict(err=None, ticking=None, tickno=0, disp=0, cur_event=None, cur_tick=None, cur_seen=set(),
              next_pid=0, tick_events=[], recv=[], nreg=0, ncompl=0, ndisp_probe=0, subtree=False, unreg_since_tick=0, completion_seen=False)
    parent = [None] * n           # model: parent index, None = root
    pending = set()               # model: unregister() called, parent link not yet reset
    # announcements, keyed by (event name, component, manager): 'need' = completed operations, 'may' = operations that may or may
    # not count as completed (register() raised but left c a proper child of p), 'seen' = dispatched event objects
    ann_need, ann_may, ann_seen = {}, {}, {}
    home = {}                     # pid -> index of the root whose queue holds the probe (model)
    prereg = set()                # pids that sat in c's own queue at register(c, p)
    pdisp = {}                    # pid -> number of dispatches
    left = {}                     # (A, x) -> was A a root when x left A's subtree
    incache = [set() for _ in range(n)]   # members of A's tree at the times A ticked as a root (avoidance of K_STALE only)
    was_child = [False] * n
    rerooted = [False] * n

    def viol(key, detail):
        if not ctx.violations:
            ctx.trace('!! ' + key + ': ' + detail)
        ctx.violation(key, detail)

    # ---- model helpers
    def mtop(x):
        while parent[x] is not None:
            x = parent[x]
        return x

    def mkids(x):
        return [i for i in range(n) if parent[i] == x]

    def msub(x):
        out, todo = [], [x]
        while todo:
            y = todo.pop()
            out.append(y)
            todo.extend(mkids(y))
        return sorted(out)

    def manc(x):
        out = []
        while parent[x] is not None:
            x = parent[x]
            out.append(x)
        return out

    def name(o):
        ix = getattr(o, 'ix', None)
        return 'c%d' % ix if isinstance(ix, int) else type(o).__name__

    def rtop(o):
        for _ in range(n + 2):
            if o.parent is o:
                return o
            o = o.parent
        return None

    # ---- observation: every pool component carries a global observer and a named probe handler
    def on_invoke(x, event, kind):
        # the dispatcher catches BaseException from handlers: keep harness errors and re-raise them after the step
        try:
            _on_invoke(x, event, kind)
        except Exception as e:
            if st['err'] is None:
                import traceback
                st['err'] = 'harness error inside a handler: %r\n%s' % (e, traceback.format_exc())

    def raise_harness_error():
        if st['err'] is not None:
            raise RuntimeError(st['err'])

    def _on_invoke(x, event, kind):
        T = st['ticking']
        if T is None:
            raise RuntimeError('handler invoked outside a harness tick: %s %r' % (name(x), event.name))
        new = (event is not st['cur_event'] or st['cur_tick'] != st['tickno'] or (x.ix, kind) in st['cur_seen'])
        if new:
            st['disp'] += 1
            st['cur_event'], st['cur_tick'], st['cur_seen'] = event, st['tickno'], set()
            detect_completions()
            begin_dispatch(T, event)
        st['cur_seen'].add((x.ix, kind))
        ctx.log('H', st['disp'], x.ix, kind)
        st['recv'].append(x.ix)
        if ctx.violations:
            return
        # "a component whose unregistration has completed receives nothing further from its former tree"
        top = rtop(x)
        if top is not comps[T]:
            was_root = left.get((T, x.ix))
            shape = ('never-member' if was_root is None else
                     'member-left-while-dispatcher-was-root' if was_root else 'member-left-while-dispatcher-was-child')
            viol('C07/receives-from-former-tree/' + shape,
                 'handler %s of c%d was invoked for %s dispatched by root c%d, but c%d is in the tree of %s (it left c%d\'s subtree by a '
                 'completed unregistration)' % (kind, x.ix, describe(event), T, x.ix, name(top) if top is not None else '?', T))

    def describe(event):
        a = event.args
        if event.name == 'probe':
            return 'probe#%d' % a[0]
        if event.name in ('registered', 'unregistered', 'prepare_unregister'):
            return '%s(%s)' % (event.name, ', '.join(name(o) for o in a))
        if event.name == 'prepare_unregister_complete':
            return 'prepare_unregister_complete(%s)' % name(a[0].args[0])
        return event.name

    def begin_dispatch(T, event):
        nm, a = event.name, event.args
        st['recv'] = []
        st['tick_events'].append((describe(event), st['recv']))
        if nm == 'probe':
            pid = a[0]
            ctx.log('D', st['disp'], 'probe', pid, T)
            pdisp[pid] = pdisp.get(pid, 0) + 1
            st['ndisp_probe'] += 1
            if st['completion_seen']:
                ctx.stat('probe-dispatched-after-a-completion')
            if pid in prereg:
                ctx.stat('prereg-probe-dispatched')
                # "events queued on a component before it was registered are dispatched by its new root rather than lost"
                if pdisp[pid] > 1:
                    viol('C07/queued-before-register/dispatched-twice', 'probe#%d, which sat in a component\'s own queue when that '
                         'component was registered, was dispatched a second time (now by root c%d)' % (pid, T))
                elif home.get(pid) != T:
                    viol('C07/queued-before-register/dispatched-by-wrong-root', 'probe#%d was moved to the queue of root c%s by a '
                         'registration but is dispatched by c%d' % (pid, home.get(pid), T))
            home.pop(pid, None)
        elif nm in ('registered', 'unregistered'):
            ixs = tuple(getattr(o, 'ix', -1) for o in a)
            ctx.log('D', st['disp'], nm, T, *ixs)
            # "each completed registration or unregistration has been announced by exactly one registered/unregistered event":
            # the event announces the operation it names - (component, manager) = (c, the parent c was registered with /
            # unregistered from); an event that names another pair announces another operation
            key = (nm,) + (ixs + (-1, -1))[:2]
            ann_seen[key] = ann_seen.get(key, 0) + 1
            allowed = ann_need.get(key, 0) + ann_may.get(key, 0)
            if ann_seen[key] > allowed and not ctx.violations:
                what = 'register() calls' if nm == 'registered' else 'completed unregistrations'
                # completed operations on the same component (any manager) against announcements naming it (any manager)
                ops = sum(v for k, v in ann_need.items() if k[:2] == key[:2])
                evs = sum(v for k, v in ann_seen.items() if k[:2] == key[:2])
                if evs <= ops:
                    done = sorted(k[2] for k, v in ann_need.items() if k[:2] == key[:2] and v > ann_seen.get(k, 0))
                    viol('C07/%s/announcement-names-other-manager' % nm, '%s(%s) dispatched (%d time(s)) but only %d %s of c%d with that '
                         'manager; the operation(s) on c%d that have no announcement yet are with %s'
                         % (nm, ', '.join('c%d' % i if i >= 0 else '?' for i in key[1:]), ann_seen[key], allowed, what, key[1], key[1],
                            ', '.join('c%d' % m for m in done)))
                else:
                    viol('C07/%s/more-announcements-than-%s' % (nm, 'registrations' if nm == 'registered' else 'completions'),
                         '%s(%s) dispatched %d times for %d %s'
                         % (nm, ', '.join('c%d' % i if i >= 0 else '?' for i in key[1:]), ann_seen[key], allowed, what))
        else:
            ctx.log('D', st['disp'], nm, T)
            if nm == 'exception':
                ctx.stat('obs:exception-event')     # a handler of the library raised; not a clause of C07 by itself

    class Node(BaseComponent):
        def __init__(self, ix, channel):
            self.ix = ix
            super().__init__(channel=channel)

        @handler(channel='*', priority=100)
        def _sim_obs(self, event, *args, **kwargs):
            on_invoke(self, event, 'obs')

        @handler('probe', channel='*', priority=50)
        def _sim_probe(self, event, *args, **kwargs):
            on_invoke(self, event, 'probe')

    comps = [Node(i, '*' if ch.draw(2, 'channel') == 0 else 'ch%d' % i) for i in range(n)]

    # ---- oracle on the object graph (public attributes parent / root / components), after every step
    def check_graph(after):
        raise_harness_error()
        after = detect_completions() or after
        ctx.state((tuple(-1 if p is None else p for p in parent), tuple(sorted(pending))))
        if ctx.violations:
            return
        check_links(after)

    def detect_completions():
        # an unregistration has completed when the parent link has been reset; called at the begin of every dispatch and after
        # every step, so completions are learnt in the order in which they happened
        seen = None
        for c in sorted(pending):
            if comps[c].parent is comps[c]:
                pending.discard(c)
                ann_need[('unregistered', c, parent[c])] = ann_need.get(('unregistered', c, parent[c]), 0) + 1
                if parent[parent[c]] is not None:
                    ctx.stat('unregister-completed-from-nonroot-parent')
                st['ncompl'] += 1
                st['completion_seen'] = True
                sub = msub(c)
                for A in manc(c):
                    for x in sub:
                        left[(A, x)] = parent[A] is None
                ctx.log('C', c, parent[c])
                st['tick_events'].append(('[unregistration of c%d completed: detached from c%d with subtree %s]'
                                          % (c, parent[c], ','.join('c%d' % x for x in sub)), None))
                parent[c] = None
                rerooted[c] = was_child[c]
                if len(sub) > 1:
                    ctx.stat('unregister-with-subtree-completed')
                    st['subtree'] = True
                seen = 'unregister-completion'
        return seen

    def check_links(after):
        for x in range(n):
            X = comps[x]
            P = X.parent
            # "parent and child links agree"
            if P is not X and X not in P.components:
                return viol('C07/links/parent-without-child-entry/after-' + after,
                            'c%d.parent is %s but c%d is not in %s.components' % (x, name(P), x, name(P)))
            for k in sorted(getattr(K, 'ix', -1) for K in X.components):
                if k < 0 or comps[k].parent is not X:
                    return viol('C07/links/child-entry-without-parent-pointer/after-' + after,
                                'c%d is in c%d.components but c%d.parent is %s' % (k, x, k, name(comps[k].parent) if k >= 0 else '?'))
        for x in range(n):
            X = comps[x]
            # "every component's root is the top of the tree it is in" (after the links of all components, so that one broken
            # link is always reported as that and not as the wrong root it causes elsewhere)
            top = rtop(X)
            if top is None:
                return viol('C07/links/parent-cycle/after-' + after, 'following parent from c%d never reaches a top' % x)
            if X.root is not top:
                return viol('C07/root/not-top-of-tree/after-' + after,
                            'c%d.root is %s but following parent links from c%d ends at %s' % (x, name(X.root), x, name(top)))
        for x in range(n):
            X = comps[x]
            # "a subtree moved or detached as a whole stays fully connected" (and register / completed unregister did what they say)
            rp = None if X.parent is X else getattr(X.parent, 'ix', -1)
            if rp != parent[x]:
                return viol('C07/connected/parent-link-differs/after-' + after, 'c%d.parent is %s; by the history of operations it must be %s'
                            % (x, 'itself' if rp is None else 'c%d' % rp, 'itself' if parent[x] is None else 'c%d' % parent[x]))
            rk = sorted(getattr(K, 'ix', -1) for K in X.components)
            if rk != mkids(x):
                return viol('C07/connected/children-differ/after-' + after, 'c%d.components is %r; by the history of operations it must be %r'
                            % (x, rk, mkids(x)))

    # ---- operations
    def do_fire(x):
        st['next_pid'] += 1
        pid = st['next_pid']
        T = mtop(x)
        home[pid] = T
        ctx.log('F', pid, x)
        ctx.trace('fire probe#%d on c%d (%s)' % (pid, x, 'a root: goes to its own queue' if T == x else 'in the tree of root c%d' % T))
        comps[x].fire(probe(pid))
        check_graph('fire')

    def do_register(c, p):
        T = mtop(p)
        moved = sorted(pid for pid, h in home.items() if h == c)
        sub = msub(c)
        if p in pending:
            ctx.stat('register-under-pending-parent')
        ctx.log('R', c, p)
        ctx.trace('register c%d (subtree %s, own queue holds %s) under c%d (tree of root c%d%s)'
                  % (c, ['c%d' % x for x in sub], ['probe#%d' % q for q in moved], p, T,
                     '; unregistration of c%d pending' % p if p in pending else ''))
        # register(c, p) is an operation of the quantifier whatever state p is in.  An exception out of it is not named by the
        # statement; the state it leaves behind is judged like after any other step: c is either p's child (the registration
        # happened: links, root, subtree and - optionally - the announcement are judged as usual) or still fully detached (it
        # did not happen: nothing moved, nothing to announce); anything in between fails the link clauses below.
        raised = None
        try:
            comps[c].register(comps[p])
        except Exception as e:
            raised = type(e).__name__
            ctx.stat('obs:register-raised')
            ctx.log('RX', c, p, raised)
            ctx.trace('   register(c%d, c%d) raised %s; c%d.parent is now %s' % (c, p, raised, c, name(comps[c].parent)))
        if raised is not None and comps[c].parent is not comps[p]:
            for pid in moved:
                home.pop(pid, None)        # refused registration: where c's queued events are now is not judged
            check_graph('register-raised')
            return
        for pid in moved:
            home[pid] = T
            prereg.add(pid)
            ctx.stat('prereg-probe-moved')
        if len(sub) > 1:
            ctx.stat('register-with-subtree')
            st['subtree'] = True
        if parent[p] is not None:
            ctx.stat('register-under-nonroot')
        if was_child[c]:
            ctx.stat('reregister-elsewhere')
        parent[c] = p
        was_child[c] = True
        if max(len(manc(x)) for x in sub) >= 2:
            ctx.stat('tree-depth>=3')
        book = ann_need if raised is None else ann_may
        book[('registered', c, p)] = book.get(('registered', c, p), 0) + 1
        st['nreg'] += 1
        check_graph('register' if raised is None else 'register-raised')

    def do_unregister(c):
        again = c in pending
        if again:
            ctx.stat('unregister-again-while-pending')
        else:
            pending.add(c)
            st['unreg_since_tick'] += 1
            if st['unreg_since_tick'] > 1:
                ctx.stat('multi-unregister-before-tick')
        ctx.log('U', c, again)
        ctx.trace('unregister c%d (child of c%d, tree of root c%d)%s' % (c, parent[c], mtop(c), ' [already pending]' if again else ''))
        comps[c].unregister()
        check_graph('unregister')

    def do_tick(T, how):
        st['tickno'] += 1
        st['unreg_since_tick'] = 0
        ncompl0 = st['ncompl']
        due = sorted(pid for pid, h in home.items() if h == T and pid in prereg)
        incache[T].update(msub(T))
        if rerooted[T]:
            ctx.stat('tick-of-reattached-then-detached-root')
        st['tick_events'] = []
        st['recv'] = []
        ctx.log('T', T, how)
        st['ticking'] = T
        try:
            if how:
                comps[T].flush()
            else:
                comps[T].tick()
        finally:
            st['ticking'] = None
            st['cur_event'] = None
        after = detect_completions() or ('unregister-completion' if st['ncompl'] != ncompl0 else 'tick')
        ctx.trace('%s c%d: %s' % ('flush' if how else 'tick', T, '; '.join(
            d if recv is None else '%s -> %s' % (d, ','.join('c%d' % r for r in sorted(set(recv)))) for d, recv in st['tick_events'])
            or 'nothing queued'))
        check_graph(after)
        if not ctx.violations:
            lost = [pid for pid in due if not pdisp.get(pid)]
            if lost:
                viol('C07/queued-before-register/not-dispatched-by-new-root', 'probe(s) %r sat in a component\'s own queue when it was '
                     'registered into the tree of root c%d; a full pass of c%d did not dispatch them' % (lost, T, T))
        for pid in [pid for pid, h in home.items() if h == T]:
            home.pop(pid)      # whatever was queued before this pass is no longer tracked (order/completeness of a pass is C02's subject)

    def reg_candidates():
        out = []
        for c in range(n):
            if parent[c] is not None or c in pending:
                continue
            sub = set(msub(c))
            if avoid_stale and any(d != c and d in pending and (set(msub(d)) & incache[c]) for d in sub):
                continue
            ps = [p for p in range(n) if p not in sub]
            if ps:
                out.append((c, ps))
        return out

    def unreg_candidates():
        out = []
        for c in range(n):
            if parent[c] is None or c in pending:
                continue
            if avoid_stale:
                sub = set(msub(c))
                if any(parent[A] is not None and (sub & incache[A]) for A in manc(c)):
                    continue
            out.append(c)
        return out

    # ---- history: every step consumes exactly four draws (op, a, b, c) and op 0 is "nothing", so that the shrinker can delete or
    # zero one step without shifting the meaning of the others
    wts = [1, ch.randint(1, 4, 'w-register'), ch.randint(1, 4, 'w-fire'), ch.randint(1, 4, 'w-unregister'), ch.randint(1, 4, 'w-tick'), 1]
    nops = ch.randint(6, ctx.cfg['max_ops'], 'nops')
    check_graph('init')
    for _ in range(nops):
        if ctx.violations:
            break
        regs, unregs, pend = reg_candidates(), unreg_candidates(), sorted(pending)
        w = [wts[0], wts[1] if regs else 0, wts[2], wts[3] if unregs else 0, wts[4], wts[5] if pend else 0]
        k, a, b, c3 = ch.weighted(w, 'op'), ch.draw(60, 'a'), ch.draw(60, 'b'), ch.weighted([4, 2, 2, 1], 'c')
        if k == 1:
            c, ps = regs[a % len(regs)]
            do_register(c, ps[b % len(ps)])
        elif k == 2:
            do_fire(a % n)
        elif k == 3:
            for i in range(1 + (0, 0, 1, 2)[c3]):
                cand = unreg_candidates()
                if not cand or ctx.violations:
                    break
                do_unregister(cand[(a, b, a + b)[i] % len(cand)])
        elif k == 4:
            roots = [r for r in range(n) if parent[r] is None]
            roots = roots + [r for r in roots if len(comps[r])] * 3       # prefer roots that have something queued
            T = roots[a % len(roots)]
            for i in range(1 + c3):
                if ctx.violations or parent[T] is not None:
                    break
                do_tick(T, b % 2)
        elif k == 5:
            do_unregister(pend[a % len(pend)])

    # ---- drain every root, then judge the history
    rounds = 0
    while not ctx.violations:
        busy = [r for r in range(n) if parent[r] is None and len(comps[r])]
        if not busy:
            break
        rounds += 1
        if rounds > 40:
            raise HarnessLimit('final drain did not terminate')
        for r in busy:
            if parent[r] is None and not ctx.violations:
                do_tick(r, 0)
    if not ctx.violations:
        lost = sorted(pid for pid in prereg if not pdisp.get(pid))
        if lost:
            viol('C07/queued-before-register/lost', 'probe(s) %r sat in a component\'s own queue when it was registered and were never '
                 'dispatched although every root has been drained' % (lost,))
    if not ctx.violations:
        # (too many announcements were judged when they were dispatched; here: too few)
        for key in sorted(ann_need):
            if ann_seen.get(key, 0) < ann_need[key]:
                nm, c, p = key
                viol('C07/%s/not-announced' % nm, '%d %s c%d completed but %d %s(c%d, c%d) event(s) were dispatched after draining every root'
                     % (ann_need[key], 'registration(s) of c%d under' % c if nm == 'registered' else 'unregistration(s) of c%d from' % c,
                        p, ann_seen.get(key, 0), nm, c, p))
                break
    if pending and not ctx.violations:
        ctx.stat('obs:unregister-never-completes', len(pending))
        ctx.trace('observation: unregistration of %s still pending after every root was drained' % ['c%d' % c for c in sorted(pending)])
    ctx.sim_time = 0.0
    ctx.nontrivial = bool(st['nreg'] >= 2 and st['ncompl'] >= 1 and st['ndisp_probe'] >= 1 and st['subtree'])
