from circuits import Component, Event, BaseComponent, handler, Manager
class foo(Event):
    success=True; failure=True
log=[]
class A(Component):
    @handler('foo', priority=2)
    def h1(self):
        raise ValueError('x')
    @handler('foo', priority=1)
    def h2(self):
        yield 1
        yield None
        yield 2
    @handler('foo', priority=0)
    def h3(self):
        return 3
    @handler('foo_success','foo_failure','exception')
    def obs(self, event, *a, **k):
        log.append(event.name)
    @handler('exception')
    def exc(self,*a,**k): pass
a=A()
v=a.fire(foo())
for i in range(10): a.tick()
print(log)
print(v.value, v.errors, v.result)
