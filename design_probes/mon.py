import sys, threading, time, random
mon=sys.monitoring
TOOL=mon.PROFILER_ID
mon.use_tool_id(TOOL,'sim')
class Sched:
    def __init__(self, seed):
        self.rng=random.Random(seed); self.sems={}; self.cur=None; self.trace=[]; self.alive=set(); self.steps=0
    def spawn(self, name, fn):
        sem=threading.Semaphore(0); self.sems[name]=sem; self.alive.add(name)
        def body():
            sem.acquire(); 
            threading.current_thread().simname=name
            try: fn()
            finally:
                self.alive.discard(name); self.pick(exiting=True)
        t=threading.Thread(target=body); t.simname=None; t.start(); return t
    def pick(self, exiting=False):
        me=self.cur
        cands=sorted(self.alive)
        if not cands: self.done.set(); return
        nxt=self.rng.choice(cands)
        self.trace.append(nxt); self.cur=nxt
        if nxt!=me:
            self.sems[nxt].release()
            if not exiting: self.sems[me].acquire()
    def line(self, code, lineno):
        name=getattr(threading.current_thread(),'simname',None)
        if name is None or name!=self.cur: return
        self.steps+=1
        if self.rng.random()<0.2: self.pick()
counter=0
def work():
    global counter
    for i in range(200):
        x=counter
        x=x+1
        counter=x
def run(seed):
    global counter; counter=0
    s=Sched(seed); s.done=threading.Event()
    mon.register_callback(TOOL, mon.events.LINE, s.line)
    mon.set_local_events(TOOL, work.__code__, mon.events.LINE)
    ts=[s.spawn('t%d'%i, work) for i in range(3)]
    s.cur='t0'; s.trace.append('t0'); s.sems['t0'].release()
    s.done.wait()
    for t in ts: t.join()
    mon.set_local_events(TOOL, work.__code__, 0)
    return counter, len(s.trace), s.steps, hash(tuple(s.trace))
t0=time.time()
print(run(1)); print(run(1)); print(run(2))
n=0
t0=time.time()
for i in range(50): r=run(i); n+=r[2]
dt=time.time()-t0
print('steps/s', n/dt, 'runs/s', 50/dt)
