import socket, select, errno, os
a,b=socket.socketpair(); a.setblocking(False); b.setblocking(False)
b.send(b'x'*10)       # unread data at a
a.close()              # close with unread data -> reset?
try: print('b.recv', b.recv(10))
except OSError as e: print('b.recv err', errno.errorcode[e.errno])
try: print('b.send', b.send(b'y'))
except OSError as e: print('b.send err', errno.errorcode[e.errno])
p=select.poll(); p.register(b, select.POLLIN|select.POLLOUT); print('poll', p.poll(0))
# half close
a,b=socket.socketpair(); a.setblocking(False); b.setblocking(False)
b.shutdown(socket.SHUT_WR)
p=select.poll(); p.register(a, select.POLLIN|select.POLLOUT); print('poll after peer SHUT_WR', p.poll(0), 'POLLIN',select.POLLIN,'POLLOUT',select.POLLOUT,'POLLHUP',select.POLLHUP,'RDHUP',select.POLLRDHUP)
print(a.recv(10)); print(a.send(b'still ok'), b.recv(20))
b.close(); print('poll after peer close', p.poll(0))
p2=select.poll(); p2.register(a, select.POLLOUT); print('pollout-only after peer close', p2.poll(0))
e=select.epoll(); e.register(a, select.EPOLLOUT); print('epollout-only after close', e.poll(0))
print(select.select([a],[a],[],0))
# sndbuf
a,b=socket.socketpair(); a.setblocking(False)
a.setsockopt(socket.SOL_SOCKET, socket.SO_SNDBUF, 4096)
print('sndbuf', a.getsockopt(socket.SOL_SOCKET, socket.SO_SNDBUF))
tot=0
try:
    while True: tot+=a.send(b'z'*1000)
except BlockingIOError: pass
print('filled after', tot)
n=a.send(b'q'*100000) if False else None
# fd reuse determinism
fds=[]
for i in range(3):
    s1,s2=socket.socketpair(); fds.append((s1.fileno(),s2.fileno())); s1.close(); s2.close()
print(fds)
