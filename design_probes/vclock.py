import circuits.core.helpers as H, circuits.core.timers as T, circuits.core.manager as M
from circuits import Component, Event, Timer, handler, Manager
class Clock:
    now=1000.0
    waits=[]
clk=Clock()
class VEvent:
    def __init__(self): self.flag=False
    def set(self): self.flag=True
    def clear(self): self.flag=False
    def is_set(self): return self.flag
    def wait(self, timeout=None):
        if self.flag: return True
        if timeout is None or timeout>=10000:
            raise RuntimeError('would block forever at %r'%clk.now)
        clk.waits.append((clk.now, timeout)); clk.now+=timeout; return False
H.Event=VEvent
T.time=M.time=lambda: clk.now
class tick(Event): pass
log=[]
class App(Component):
    def tick(self, n): log.append((n, round(clk.now-1000,6)))
m=Manager(); App().register(m)
Timer(0.3, tick('a')).register(m)
Timer(0.1, tick('p'), persist=True).register(m)
Timer(0, tick('z')).register(m)
m._running=True
try:
    for i in range(40): m.tick()
except RuntimeError as e: print(e)
print(log)
print(clk.waits[:12])
