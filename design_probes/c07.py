from circuits import Component, Event, BaseComponent, handler, Manager
class probe(Event): pass
log=[]
class C(Component):
    def __init__(self, name):
        self.n=name
        super().__init__(channel=name)
    @handler('probe', channel='*')
    def _p(self, tag): log.append((self.n,'probe',tag))
    @handler('registered', channel='*')
    def _r(self, c, m): log.append((self.n,'registered',c.n,m.n))
    @handler('unregistered', channel='*')
    def _u(self, c, m): log.append((self.n,'unregistered',c.n,m.n))
def inv(pool):
    bad=[]
    for c in pool:
        if c.parent is not c and c not in c.parent.components: bad.append((c.n,'not in parent.components'))
        for k in c.components:
            if k.parent is not c: bad.append((k.n,'child parent mismatch', c.n))
        r=c
        seen=0
        while r.parent is not r and seen<50: r=r.parent; seen+=1
        if c.root is not r: bad.append((c.n,'root',c.root.n,'expected',r.n))
    return bad
def drain(m,n=10):
    for i in range(n): m.flush()

# scenario 1: unregister nested: a<-b<-c ; unregister b and c before any tick
a,b,c=C('a'),C('b'),C('c')
b.register(a); c.register(b); drain(a); log.clear()
c.unregister(); b.unregister(); drain(a)
print('S1',log, inv([a,b,c])); log.clear()
drain(b); drain(c); print('S1 after draining b,c', log, inv([a,b,c]))
# scenario 2: unregister then immediately register elsewhere before tick
log.clear()
a,b,d=C('a'),C('b'),C('d')
b.register(a); drain(a); log.clear()
b.unregister(); 
drain(a); 
print('S2',log, inv([a,b,d]))
# scenario 3: fire on detached then register: queue drain
log.clear()
a,b=C('a'),C('b')
b.fire(probe('early'))
b.register(a)
drain(a)
print('S3',log, inv([a,b]))
# scenario 4: events queued on child while child is itself flushing? skip
# scenario 5: unregister parent then child in same tick
log.clear()
a,b,c=C('a'),C('b'),C('c')
b.register(a); c.register(b); drain(a); log.clear()
b.unregister(); c.unregister(); drain(a); drain(b); drain(c)
print('S5',log, inv([a,b,c]))
a.fire(probe('after')); drain(a); print([l for l in log if l[1]=='probe'])
