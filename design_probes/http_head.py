import socket as _s, os, sys, io
import circuits.net.sockets as cns
exec(open(__import__('os').path.dirname(__import__('os').path.abspath(__file__))+'/simsock.py').read().split("cns.socket=SimSocket")[0])
cns.socket=SimSocket
import circuits.web.servers as ws, circuits.core.helpers as H
ws.stderr=io.StringIO(); H.stderr=io.StringIO()
from circuits import Manager
from circuits.core.pollers import Select
from circuits.web import Controller, BaseServer, Server
class Root(Controller):
    def index(self): return 'Hello World!'
    def big(self): return 'x'*10
    def gen(self):
        def g():
            yield 'a'; yield ''; yield 'bc'
        return g()
m=Manager(); Select().register(m)
srv=Server(('10.0.0.1',8000)).register(m); Root().register(srv)
m._running=True
def step(n=8):
    for i in range(n): m.tick(0)
step()
c=SimSocket(); c.connect(('10.0.0.1',8000)); c.setblocking(False); step()
def rr(req):
    c.send(req); step(12)
    try: return c.recv(65536)
    except BlockingIOError: return b'<nothing>'
    except OSError as e: return repr(e).encode()
print(rr(b'HEAD / HTTP/1.1\r\nHost: x\r\n\r\n'))
print('clients table:', len(srv.http._clients), 'buffers', len(srv.http._buffers))
print(rr(b'GET /big HTTP/1.1\r\nHost: x\r\n\r\n'))
print(rr(b'GET /gen HTTP/1.1\r\nHost: x\r\n\r\n'))
print(rr(b'GET /gen HTTP/1.0\r\n\r\n'))
print(rr(b'GET / HTTP/1.1\r\nHost: x\r\n\r\n'))
