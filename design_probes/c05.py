from circuits import Component, Event, BaseComponent, handler, Manager
class foo(Event):
    complete=True
class bar(Event): pass
class baz(Event): pass
log=[]
class Base(Component):
    @handler('bar', priority=5)
    def bar0(self, event):
        log.append('bar0')
        if self.MODE=='stop': event.stop()
    def bar(self):
        log.append('bar')
        self.fire(baz())
    def baz(self):
        log.append('baz')
    def foo_complete(self, *a):
        log.append('foo_complete')
class Cancel(Base):
    MODE='cancel'
    def foo(self):
        log.append('foo')
        e=bar(); self.fire(e); e.cancel()
class Gen(Base):
    MODE='gen'
    def foo(self):
        log.append('foo')
        yield None
        self.fire(bar())
        yield None
        log.append('foo-step3')
        self.fire(baz())
class Stop(Base):
    MODE='stop'
    def foo(self):
        log.append('foo')
        self.fire(bar())
class Raise(Base):
    MODE='raise'
    def foo(self):
        log.append('foo')
        self.fire(bar())
        raise ValueError
    def exception(self,*a,**k): pass
for cls in [Cancel,Gen,Stop,Raise]:
    log.clear()
    a=cls()
    a.fire(foo())
    for i in range(12): a.tick()
    print(cls.MODE, log)
