import socket, os
from circuits import Component, Manager, handler
from circuits.core.pollers import Select, Poll, EPoll
class Src(Component):
    def __init__(s, ch): super().__init__(channel=ch)
log=[]
class Obs(Component):
    channel='*'
    @handler('_read','_write','_disconnect','_error', channel='*')
    def ev(self, event, sock, *a): log.append((event.name, getattr(sock,'tag',sock), event.channels))
    @handler('exception', channel='*')
    def exc(self,*a,**k): log.append(('exception',repr(a[1])))
def mk(tag):
    a,b=socket.socketpair(); a.setblocking(False); b.setblocking(False)
    class S(socket.socket): __slots__=('tag',)
    a2=S(fileno=a.detach()); a2.tag=tag; a2.setblocking(False)
    return a2,b
for P in (Select,Poll,EPoll):
    log.clear()
    m=Manager(); p=P().register(m); Obs().register(m); s1=Src('c1').register(m); s2=Src('c2').register(m)
    m._running=True
    def it(n=3):
        for i in range(n): m.tick(0)
    it()
    a,b=mk('A'); fdA=a.fileno()
    p.addReader(s1,a); b.send(b'x'); it(); 
    print(P.__name__,'1 readable:',log); log.clear()
    # close without discard, then reuse fd number with new socket NOT registered
    a.close(); 
    a2,b2=mk('A2'); print('  reused fd', fdA, a2.fileno())
    b2.send(b'y'); it()
    print('  after close+reuse (A2 unregistered, readable):',log); log.clear()
    # now register A2 as writer only under s2
    try:
        p.addWriter(s2,a2); it()
    except Exception as e: print('  addWriter raised',repr(e))
    print('  A2 writer:',log); log.clear()
    # remove writer while reader not registered
    p.removeWriter(a2); it()
    print('  after removeWriter:',log, 'read',[getattr(x,'tag',x) for x in p._read],'write',p._write,'targets',len(p._targets),'map',{k:getattr(v,'tag',v) for k,v in getattr(p,'_map',{}).items()}); log.clear()
