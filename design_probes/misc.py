from circuits import Component, Event, handler, Manager, BaseComponent
class foo(Event): pass
log=[]
class A(Component):
    channel='a'
    @handler('foo', channel='*')
    def f(self): log.append('A.f')
class B(Component):
    channel='b'
    def foo(self): log.append('B.foo')
m=Manager(); A().register(m); B().register(m)
while len(m): m.flush()
m.fire(foo(),'a','b'); m.flush(); print('multi-channel', log); log.clear()
m.fire(foo(),'b'); m.flush(); print('b', log); log.clear()
m.fire(foo(),'*'); m.flush(); print('*', log); log.clear()
m.fire(foo(),'zzz'); m.flush(); print('zzz', log); log.clear()
# websocket codec header cut
from circuits.protocols.websocket import WebSocketCodec
c=WebSocketCodec(sock=None)
try:
    print('ws 1 byte ->', c._parse_messages(bytearray(b'\x81')))
except Exception as e: print('ws 1 byte raises', repr(e))
c=WebSocketCodec(sock=None)
frame=bytes([0x81,126,0,200])+b'x'*200
try:
    print('ws ext-len cut ->', c._parse_messages(bytearray(frame[:3])), c._parse_messages(bytearray(frame[3:])))
except Exception as e: print('ws ext cut raises', repr(e))
# node protocol
from circuits.node.protocol import Protocol
from circuits.node.utils import dump_event
class hello(Event): pass
got=[]
class R(Component):
    def hello(self, *a): got.append(a); return 'r'
m=Manager(); p=Protocol(sock=None, server=None).register(m); R().register(m)
pkt=dump_event(hello(1,2),0).encode()+b'~~~'
p.add_buffer(pkt[:20]); p.add_buffer(pkt[20:])
for i in range(5): m.flush()
print('node split packet ->', got)
got.clear(); p.add_buffer(pkt)
for i in range(5): m.flush()
print('node whole packet ->', got)
p1=Protocol(); p2=Protocol()
print('shared __events dict:', p1._Protocol__events is p2._Protocol__events)
