from circuits import Component, Event, BaseComponent, handler, Manager
class foo(Event): pass
log=[]
class A(Component):
    channel='a'
    def foo(self): log.append(('A',id(self)))
class B(Component):
    channel='a'
    def foo(self): log.append(('B',id(self)))
class R(Component):
    channel='r'

a=A(); 
a.fire(foo()); a.flush(); print('1',log); log.clear()
r=R(); a.register(r)
while len(r): r.flush()
b=B().register(a)
while len(r): r.flush()
r.fire(foo(),'a'); 
while len(r): r.flush()
print('2 in r',log); log.clear()
a.unregister()
for i in range(5):
    r.flush()
print('a.root is a', a.root is a, 'parent', a.parent is a, a._cache_needs_refresh, a._cache)
a.fire(foo()); 
for i in range(3): a.flush()
print('3 detached',log); log.clear()
