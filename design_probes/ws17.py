import socket as _s, os, sys, io, base64, struct
import circuits.net.sockets as cns
exec(open(__import__('os').path.dirname(__import__('os').path.abspath(__file__))+'/simsock.py').read().split("cns.socket=SimSocket")[0])
cns.socket=SimSocket
import circuits.web.servers as wsv, circuits.core.helpers as H
wsv.stderr=io.StringIO(); H.stderr=sys.stdout
from circuits import Manager, Component, handler
from circuits.core.pollers import Select
from circuits.web import Server, Controller
from circuits.web.websockets import WebSocketsDispatcher
from circuits.net.events import write
log=[]
class Echo(Component):
    channel='wsserver'
    def read(self, sock, data): log.append(('ws read',type(data).__name__,len(data))); self.fire(write(sock,'echo:'+data if isinstance(data,str) else data))
    def connect(self, sock,*a): log.append(('ws connect',))
    def disconnect(self, sock): log.append(('ws disconnect',))
    @handler('exception',channel='*')
    def exc(self,*a,**k): log.append(('exception',repr(a[1])))
class Root(Controller):
    def index(self): return 'hi'
def frame(op,payload,mask=b'\x01\x02\x03\x04',fin=True):
    b=bytes([(0x80 if fin else 0)|op]); n=len(payload)
    if n<=125: b+=bytes([0x80|n])
    elif n<65536: b+=bytes([0x80|126])+struct.pack('>H',n)
    else: b+=bytes([0x80|127])+struct.pack('>Q',n)
    return b+mask+bytes(c^mask[i%4] for i,c in enumerate(payload))
RUN=0
def run(script):
    global NS,RUN; RUN+=1; NS="\0sim-%d-%d-"%(os.getpid(),RUN); log.clear()
    m=Manager(); Select().register(m); srv=Server(('10.0.0.1',80)).register(m); Root().register(srv); Echo().register(srv); WebSocketsDispatcher('/ws').register(srv)
    m._running=True
    def it(n=10):
        for i in range(n): m.tick(0)
    it(); c=SimSocket(); c.connect(('10.0.0.1',80)); c.setblocking(False); it()
    key=base64.b64encode(b'0123456789abcdef').decode()
    c.send(('GET /ws HTTP/1.1\r\nHost: x\r\nUpgrade: websocket\r\nConnection: Upgrade\r\nSec-WebSocket-Key: %s\r\nSec-WebSocket-Version: 13\r\n\r\n'%key).encode()); it(15)
    print(c.recv(4096).split(b'\r\n')[0])
    srv.server._clients[0].script=list(script)
    c.send(frame(1,b'hello')+frame(2,b'x'*300)); it(30)
    try: out=c.recv(65536)
    except OSError as e: out=repr(e).encode()
    print(log, len(out), out[:12])
run([]); run([1,1,1,1,1,1,1,1,1,1,1,1,1,2,1,1,1,1,1])
