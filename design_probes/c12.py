import socket, os, sys
from circuits import Component, Event, handler, Manager
from circuits.core.pollers import Select, Poll, EPoll
from circuits.net.sockets import UNIXServer
from circuits.net.events import write, close
log=[]
class Obs(Component):
    channel='server'
    def connect(self, sock, *a): log.append(('connect',sock.fileno()))
    def read(self, sock, data): log.append(('read',sock.fileno(),data))
    def disconnect(self, sock): log.append(('disconnect',id(sock)))
    def error(self, *a): log.append(('error',)+tuple(repr(x) for x in a))
    @handler('exception', channel='*')
    def exc(self,*a,**k): log.append(('exception',repr(a[1])))
def run(P):
    log.clear()
    m=Manager(); p=P().register(m)
    path='\0probe-%d-%s'%(os.getpid(),P.__name__)
    srv=UNIXServer(path).register(m); Obs().register(m)
    m._running=True
    def ticks(n=6):
        for i in range(n): m.tick(0)
    ticks()
    c=socket.socket(socket.AF_UNIX); c.connect(path); ticks()
    c.send(b'hello'); ticks()
    ssock=srv._clients[0]
    c.close(); ticks()
    print(P.__name__, log)
    print('  clients',srv._clients,'buffers',dict(srv._buffers),'closeq',srv._closeq)
    print('  poller read',len(p._read),'write',len(p._write),'targets',len(p._targets),'map',getattr(p,'_map',None))
    # late write
    log.clear()
    m.fire(write(ssock,b'late'),'server'); ticks()
    print('  late write:',log)
    print('  clients',srv._clients,'buffers',dict(srv._buffers),'closeq',srv._closeq)
    print('  poller read',len(p._read),'write',len(p._write),'targets',len(p._targets),'map',getattr(p,'_map',None))
    m.fire(close(ssock),'server'); ticks()
    print('  late close:',log)
    print('  clients',srv._clients,'buffers',dict(srv._buffers),'closeq',srv._closeq)
for P in (Select,Poll,EPoll): run(P)
