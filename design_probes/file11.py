import os, errno, io
import circuits.io.file as F, circuits.core.helpers as H
from circuits import Manager, Component, handler
from circuits.core.pollers import Select, Poll, EPoll
from circuits.io import File
from circuits.io.events import write, close
H.stderr=io.StringIO()
log=[]
script=[]
accepted=bytearray()
real_write=os.write
def fd_write(fd,data):
    if script:
        act=script.pop(0)
        if act[0]=='err': raise OSError(act[1], os.strerror(act[1]))
        data=data[:act[1]]
    n=real_write(fd,data); accepted.extend(data[:n]); return n
F.fd_write=fd_write
class Obs(Component):
    channel='file'
    def error(self,*a): log.append(('error',repr(a)))
    def closed(self): log.append(('closed',))
    def opened(self,*a): log.append(('opened',a))
    @handler('exception',channel='*')
    def exc(self,*a,**k): log.append(('exception',repr(a[1])))
for P in (Select,Poll,EPoll):
    log.clear(); accepted.clear()
    r,w=os.pipe()
    m=Manager(); P().register(m); Obs().register(m)
    f=File(os.fdopen(w,'wb',buffering=0)).register(m)
    m._running=True
    def it(n=6):
        for i in range(n): m.tick(0)
    it()
    script[:]=[('part',2),('err',errno.EAGAIN),('part',1)]
    m.fire(write(b'hello'),'file'); m.fire(write(b'world'),'file'); m.fire(close(),'file'); it(20)
    print(P.__name__, log, bytes(accepted), os.read(r,100))
