"""Throw-away spike: baton scheduler + doubles driving the real Manager.run() with a foreign firing thread."""
import sys, threading, random, types, os
import circuits.core.manager as M, circuits.core.helpers as H, circuits.core.events as E
from circuits import Component, Event, handler, Manager

mon = sys.monitoring; TOOL = mon.PROFILER_ID

class Deadlock(Exception): pass

class Sched:
    def __init__(self, tape):
        self.tape = list(tape); self.pos = 0
        self.threads = {}      # name -> state dict
        self.cur = None; self.steps = 0; self.now = 0.0
        self.preempt_at = {}   # step -> target
        self.log = []; self.timeout_wakeups = []; self.stuck = None
        self.real_lock = threading.Lock()
    # --- thread management
    def add(self, name, fn):
        st = dict(name=name, sem=threading.Semaphore(0), state='runnable', wake_at=None, done=False, waiting_on=None)
        self.threads[name] = st
        def body():
            st['sem'].acquire()
            try: fn()
            except Deadlock: pass
            finally:
                st['state'] = 'done'
                self.switch(exiting=True)
        t = threading.Thread(target=body, name=name, daemon=True); st['thread'] = t; t.simname = name
        t.start(); return t
    def me(self): return getattr(threading.current_thread(), 'simname', None)
    def runnable(self): return sorted(n for n, s in self.threads.items() if s['state'] == 'runnable')
    def switch(self, exiting=False, prefer=None):
        me = self.cur
        while True:
            r = self.runnable()
            if r: break
            timed = [(s['wake_at'], n) for n, s in self.threads.items() if s['state'] == 'blocked' and s['wake_at'] is not None]
            others_done = all(s['state']=='done' for n,s in self.threads.items() if n!='loop')
            if not timed or others_done:
                # global stop
                self.stuck = {n: s['waiting_on'] for n, s in self.threads.items() if s['state'] == 'blocked'}
                self.finished.set()
                if exiting: return
                self.threads[me]['sem'].acquire()   # park forever (daemon)
                raise Deadlock()
            t, n = min(timed); self.now = max(self.now, t)
            s = self.threads[n]; s['state'] = 'runnable'; s['wake_at'] = None; s['timed_out'] = True
            self.timeout_wakeups.append((n, s['waiting_on'], self.now))
        nxt = prefer if prefer in r else (me if (me in r and not exiting) else r[0])
        self.cur = nxt
        if nxt != me:
            self.threads[nxt]['sem'].release()
            if not exiting: self.threads[me]['sem'].acquire()
    def block(self, what, timeout=None):
        st = self.threads[self.cur]
        st['state'] = 'blocked'; st['waiting_on'] = what; st['timed_out'] = False
        st['wake_at'] = None if timeout is None else self.now + timeout
        self.switch()
        return not st.pop('timed_out', False)
    def wake(self, pred):
        for s in self.threads.values():
            if s['state'] == 'blocked' and pred(s['waiting_on']):
                s['state'] = 'runnable'; s['wake_at'] = None
    # --- preemption
    def on_line(self, code, line):
        name = self.me()
        if name is None or name != self.cur: return
        self.steps += 1
        tgt = self.preempt_at.get(self.steps)
        if tgt is not None:
            r = [n for n in self.runnable() if n != name]
            if r:
                self.log.append(('preempt', self.steps, name, code.co_name, line, '->', tgt if tgt in r else r[0]))
                self.switch(prefer=tgt if tgt in r else r[0])

S = None
class SimRLock:
    def __init__(self): self.owner = None; self.count = 0
    def acquire(self, blocking=True, timeout=-1):
        me = S.me()
        while self.owner not in (None, me):
            S.block(('lock', id(self)))
        self.owner = me; self.count += 1; return True
    def release(self):
        self.count -= 1
        if self.count == 0:
            self.owner = None; S.wake(lambda w: w == ('lock', id(self)))
    __enter__ = acquire
    def __exit__(self, *a): self.release()
class SimEvent:
    def __init__(self): self.flag = False
    def is_set(self): return self.flag
    def set(self): self.flag = True; S.wake(lambda w: w == ('event', id(self)))
    def clear(self): self.flag = False
    def wait(self, timeout=None):
        if self.flag: return True
        S.block(('event', id(self)), timeout)
        return self.flag

def monitor_module(mod):
    def walk(code):
        mon.set_local_events(TOOL, code, mon.events.LINE)
        for c in code.co_consts:
            if isinstance(c, types.CodeType): walk(c)
    for v in vars(mod).values():
        if isinstance(v, types.FunctionType) and v.__module__ == mod.__name__: walk(v.__code__)
        elif isinstance(v, type) and v.__module__ == mod.__name__:
            for a in vars(v).values():
                f = getattr(a, '__func__', a)
                if isinstance(f, types.FunctionType): walk(f.__code__)
                elif isinstance(a, property):
                    for g in (a.fget, a.fset):
                        if g: walk(g.__code__)

class ping(Event): pass

def run(preempts, mutant=False, nfire=2):
    global S
    S = Sched([]); S.finished = threading.Event(); S.preempt_at = dict(preempts)
    M.RLock = SimRLock; H.Event = SimEvent
    M.time = H.time = lambda: S.now
    M.atexit = types.SimpleNamespace(register=lambda f: None)
    M.set_signal_handler = lambda *a: None
    got = []
    class App(Component):
        def ping(self, t, i): got.append((t, i))
    app = App()
    if mutant:
        def _fire(self, event, channel, priority=0):   # mutant: no lock
            handling = self._currently_handling
            self._queue.append(event, channel, priority)
            if isinstance(handling, E.generate_events):
                handling.reduce_time_left(0)
        app._fire = types.MethodType(_fire, app)
        mon.set_local_events(TOOL, _fire.__code__, mon.events.LINE)
    fired = []
    def loop(): app.run()
    def firer():
        for i in range(nfire):
            app.fire(ping('f', i)); fired.append(('f', i))
    mon.register_callback(TOOL, mon.events.LINE, S.on_line)
    S.add('loop', loop); S.add('firer', firer)
    S.cur = 'loop'; S.threads['loop']['sem'].release()
    S.finished.wait(20)
    lost = [f for f in fired if f not in got]
    return dict(steps=S.steps, got=got, lost=lost, stuck=S.stuck, timeouts=S.timeout_wakeups[:3], queued=len(app), log=S.log)

mon.use_tool_id(TOOL, 'spike')
for mod in (M, H, E): monitor_module(mod)
print(run({}))
import time as _t
t0=_t.time(); n=0; bad=[]
for step in range(1, 400):
    r = run({step: 'firer'}); n+=1
    if r['lost'] or (r['stuck'] and r['queued']): bad.append((step, r['lost'], r['queued']))
print('orig: runs', n, 'violations', bad[:5], 'time', round(_t.time()-t0,2))
bad=[]
for step in range(1, 400):
    for step2 in (None,):
        r = run({step: 'firer', step+1: 'loop'} if False else {step: 'firer'}, mutant=True)
        if r['lost'] or (r['stuck'] and r['queued']): bad.append((step, r['lost'], r['queued'], r['log']))
print('mutant single preemption violations', len(bad), bad[:2])
# two-preemption search on mutant: switch to firer at s1, back to loop after k firer steps
import itertools
bad=[]; tried=0
rng=random.Random(1)
for _ in range(1500):
    s1=rng.randrange(1,300); k=rng.randrange(1,12)
    r=run({s1:'firer', s1+k:'loop'}, mutant=True); tried+=1
    if r['lost'] or (r['stuck'] and r['queued']): bad.append((s1,k,r['lost'],r['queued'],r['log']))
print('mutant two-preemption: tried',tried,'violations',len(bad)); print(bad[:1])
