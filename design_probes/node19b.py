import socket as _s, os, sys, io
import circuits.net.sockets as cns
exec(open(__import__('os').path.dirname(__import__('os').path.abspath(__file__))+'/simsock.py').read().split("cns.socket=SimSocket")[0])
cns.socket=SimSocket
import circuits.core.helpers as H
H.stderr=sys.stdout
from circuits import Manager, Component, Event, handler
from circuits.core.pollers import Select
from circuits.node import Node, remote
class hello(Event): pass
log=[]
class SApp(Component):
    def hello(self, x): log.append(('S hello',len(x))); return 'R%d'%len(x)
RUN=0
def run(script, size=3):
    global NS,RUN; RUN+=1; NS="\0sim-%d-%d-"%(os.getpid(), RUN)
    log.clear()
    ms=Manager(); Select().register(ms); ns=Node(port=9000, server_ip='10.0.0.1').register(ms); SApp().register(ms)
    mc=Manager(); Select().register(mc); nc=Node().register(mc)
    nc.add('peer','10.0.0.1',9000, reconnect_delay=0)
    class Obs(Component):
        @handler('connected_to', channel='*')
        def c(self,*a): log.append(('C connected_to',a[0]))
        @handler('exception', channel='*')
        def exc(self,*a,**k): log.append(('C exception',repr(a[1])))
    Obs().register(mc)
    ms._running=mc._running=True
    v=None
    for i in range(80):
        ms.tick(0); mc.tick(0)
        if i==10:
            for c in ns.server.server._clients: c.script=list(script)
            v=mc.fire(remote(hello('x'*size),'peer'))
    print(log, 'value=',v.value if v else None, 'errors', getattr(v,'errors',None))
run([]); run([10,10,10,5,1,1,1]); run([], 6000)
