import socket as _s, os, errno
import circuits.net.sockets as cns
from circuits import Component, Manager, handler, Event
from circuits.core.pollers import Select, Poll, EPoll
from circuits.net.events import write, connect, close
NS='\0sim-%d-'%os.getpid()
class SimSocket(_s.socket):
    __slots__=('sim_local','sim_peer','script')
    def __init__(self, family=-1, type=-1, proto=-1, fileno=None):
        if fileno is None:
            super().__init__(_s.AF_UNIX, _s.SOCK_STREAM, 0)
        else:
            super().__init__(_s.AF_UNIX, _s.SOCK_STREAM, 0, fileno=fileno)
        self.sim_local=None; self.sim_peer=None; self.script=[]
    def setsockopt(self,*a): pass
    def bind(self, addr):
        self.sim_local=addr; super().bind(NS+'%s:%s'%addr)
    def getsockname(self): return self.sim_local or ('0.0.0.0',0)
    def getpeername(self):
        super().getpeername()
        return self.sim_peer
    def connect(self, addr):
        self.sim_peer=addr
        if self.sim_local is None: self.sim_local=('10.0.0.9',40000)
        # tell the server who we are: abstract bind of client to encode address
        try: super().bind(NS+'c:%s:%s:%d'%(self.sim_local+(id(self),)))
        except OSError: pass
        return super().connect(NS+'%s:%s'%addr)
    def accept(self):
        fd, addr = self._accept()
        s=SimSocket(fileno=fd)
        s.sim_local=self.sim_local
        a=addr.decode() if isinstance(addr,bytes) else addr
        parts=a[len(NS):].split(':') if a else []
        s.sim_peer=(parts[1],int(parts[2])) if len(parts)>=3 else ('?',0)
        return s, s.sim_peer
    def recv(self, n, *a):
        if self.script:
            k=self.script.pop(0); n=min(n,k)
        return super().recv(n,*a)
cns.socket=SimSocket
log=[]
class SObs(Component):
    channel='server'
    def connect(self, sock, host, port): log.append(('S connect',host,port))
    def read(self, sock, data):
        log.append(('S read',data)); 
        return data.upper()
    def disconnect(self, sock): log.append(('S disconnect',))
class CObs(Component):
    channel='client'
    def connected(self, host, port): log.append(('C connected',host,port)); self.fire(write(b'hello world'))
    def read(self, data): log.append(('C read',data))
    def disconnected(self): log.append(('C disconnected',))
    def error(self,*a): log.append(('C error',a))
for P in (Select,Poll,EPoll):
    log.clear()
    ms=Manager(); P().register(ms); srv=cns.TCPServer(('10.0.0.1',8000)).register(ms); SObs().register(ms)
    mc=Manager(); P().register(mc); cli=cns.TCPClient().register(mc); CObs().register(mc)
    ms._running=mc._running=True
    def step(n=5):
        for i in range(n): ms.tick(0); mc.tick(0)
    step()
    mc.fire(connect('10.0.0.1',8000),'client'); step()
    srv._clients[0].script=[1,1,3,2]
    step(10)
    mc.fire(close(),'client'); step()
    print(P.__name__, log)
    ms.fire(close(),'server'); step()
