import random, itertools
import circuits.core.manager as M
from circuits import Component, Event, handler, Manager
serial=itertools.count()
_init=M.Manager.__init__
class TaskSet(set):
    order=None
    def __init__(s,*a): super().__init__(*a); s._ord={}
    def add(s,x):
        if x not in s: s._ord[x]=next(serial)
        super().add(x)
    def remove(s,x): super().remove(x); s._ord.pop(x,None)
    def copy(s):
        items=sorted(s,key=lambda x:s._ord[x]); RNG.shuffle(items); return items
def init(self,*a,**k):
    _init(self,*a,**k); self._sim_serial=next(serial); self._tasks=TaskSet()
M.Manager.__init__=init
_gh=M.Manager.getHandlers
rank={}
def getHandlers(self,event,channel,**kw):
    hs=_gh(self,event,channel,**kw)
    def ident(h): return (h.__self__._sim_serial, h.__name__)
    def key(h):
        i=ident(h)
        if i not in rank: rank[i]=random.Random('%s/%s'%(SALT,i)).random()
        return rank[i]
    hs=sorted(hs,key=ident)
    for h in hs: key(h)
    return sorted(hs,key=key)
M.Manager.getHandlers=getHandlers
class foo(Event): pass
def run(seed):
    global RNG,SALT; RNG=random.Random(seed); SALT=RNG.random(); rank.clear()
    global serial; serial=itertools.count()
    log=[]
    class A(Component):
        def __init__(s,n): s.n=n; super().__init__()
        def foo(s):
            log.append(('h',s.n)); yield None; log.append(('s1',s.n)); yield None; log.append(('s2',s.n))
    m=Manager(); [A(i).register(m) for i in range(4)]
    while len(m): m.flush()
    m.fire(foo())
    for i in range(8): m.tick()
    return log
a=run(1); b=run(1); c=run(2)
print(a==b, a!=c); print(a); print(c)
