from circuits import Component, Event, handler
import traceback
class a(Event): pass
class b(Event): pass
log=[]
class App(Component):
    @handler('started', channel='*')
    def _s(self, m):
        log.append('started'); self.fire(a())
    def a(self):
        log.append('a'); self.fire(b()); raise SystemExit(7)
    def b(self): log.append('b')
    @handler('stopped', channel='*')
    def _st(self, m): log.append('stopped')
app=App()
orig=app.tick
def tick(*a,**k):
    print('tick running=',app._running,'q=',len(app), 'batch', app._queue._flush_batch)
    try:
        return orig(*a,**k)
    except BaseException as e:
        print(' tick raised', repr(e)); raise
app.tick=tick
try: app.run()
except BaseException as e: print('raised',repr(e))
print(log,len(app))
