from circuits import Component, Event, BaseComponent, handler, Manager
class foo(Event):
    success=True
class bar(Event): pass
log=[]
class A(Component):
    def foo(self):
        log.append('foo-start')
        x = yield self.call(bar())
        log.append(('foo-resumed', x.value, x.errors))
        return 'done'
    def bar(self):
        log.append('bar-1')
        yield None
        log.append('bar-2')
        raise ValueError('boom')
    def exception(self,*a,**k): log.append('exception')
    def foo_success(self,*a): log.append('foo_success')
a=A()
nh = {k:len(v) for k,v in a._handlers.items()}
v=a.fire(foo())
for i in range(20): a.tick()
print(log); print(v, a._tasks)
print({k:len(v) for k,v in a._handlers.items()} , nh)
