from circuits import Component, Event, BaseComponent, handler, Manager
import sys
class a(Event): pass
class b(Event): pass
log=[]
class App(Component):
    mode='started'
    code=None
    @handler('started', channel='*')
    def _s(self, m):
        log.append('started')
        self.fire(a())
        if self.mode=='started': self.stop(self.code)
    def a(self):
        log.append('a')
        self.fire(b())
        if self.mode=='a': self.stop(self.code)
        if self.mode=='exit': raise SystemExit(self.code)
        if self.mode=='kbd': raise KeyboardInterrupt
    def b(self):
        log.append('b')
        if self.mode=='b-fire':
            self.fire(a.create('c')); self.stop()
    def c(self):
        log.append('c'); self.fire(a.create('d'))
    def d(self):
        log.append('d'); self.fire(a.create('e'))
    def e(self):
        log.append('e'); self.fire(a.create('f'))
    def f(self):
        log.append('f'); self.fire(a.create('g'))
    def g(self):
        log.append('g'); 
    @handler('stopped', channel='*')
    def _st(self, m):
        log.append('stopped')
for mode,code in [('started',None),('started',3),('a',None),('a',5),('exit',7),('kbd',None),('b-fire',None)]:
    log.clear()
    app=App(); app.mode=mode; app.code=code
    try:
        r=app.run()
        print(mode,code,'returned',r,log, 'queued',len(app))
    except BaseException as e:
        print(mode,code,'raised',type(e).__name__,e.args,log,'queued',len(app))
    log.clear()
    app.mode='a'; app.code=None
    try:
        r=app.run(); print('   rerun',log,'queued',len(app))
    except BaseException as e:
        print('   rerun raised',type(e).__name__,e.args,log,'queued',len(app))
