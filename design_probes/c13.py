from circuits.web.parsers import HttpParser
def parse(segs, kind=0):
    p=HttpParser(kind, True)
    body=b''
    for s in segs:
        p.execute(s, len(s))
        if p.errno is not None: return ('ERR',p.errno,p.errstr)
    return (p.is_headers_complete(), p.is_message_complete(), p.get_method(), p.get_path(), p.get_query_string(), p.get_version(), sorted(p.get_headers().items()) if p.is_headers_complete() else None, p.recv_body())
reqs={
 'get': b'GET /a/b?x=1 HTTP/1.1\r\nHost: h\r\nX-A: 1\r\n\r\n',
 'post': b'POST /p HTTP/1.1\r\nHost: h\r\nContent-Length: 11\r\n\r\nhello world',
 'chunked': b'POST /p HTTP/1.1\r\nHost: h\r\nTransfer-Encoding: chunked\r\n\r\n5\r\nhello\r\n6;ext=1\r\n world\r\n0\r\n\r\n',
 'chunked-trailer': b'POST /p HTTP/1.1\r\nHost: h\r\nTransfer-Encoding: chunked\r\n\r\n5\r\nhello\r\n0\r\nX-T: 1\r\n\r\n',
}
for name,r in reqs.items():
    whole=parse([r])
    bad=[]
    for i in range(1,len(r)):
        got=parse([r[:i],r[i:]])
        if got!=whole: bad.append(i)
    b1=parse([r[i:i+1] for i in range(len(r))])
    print(name,len(r),'whole=',whole)
    print('   single-cut failures at',bad)
    print('   byte-at-a-time equal?',b1==whole, b1 if b1!=whole else '')
