#!/bin/sh
# tools/coverage_map.sh [RUNS] [TIER]: line coverage of /repo/circuits reached by the first RUNS runs of every property's check (one process
# per property, coverage.py in /venv).  Output: /var/tmp/cov/<PROP>.txt (missing lines per file).  A line of a module a property is about
# that no run ever executes is a blind spot of the workload: no change to it can be noticed.
N=${1:-600}; T=${2:-thorough}
mkdir -p /var/tmp/cov
for P in C01 C02 C03 C04 C05 C06 C07 C08 C09 C10 C11 C12 C13 C14 C15 C17 C18 C19; do
  ( cd /verif && PYTHONHASHSEED=0 PYTHONDONTWRITEBYTECODE=1 timeout 1500 /venv/bin/python -m coverage run --branch --source=/repo/circuits \
      --data-file=/var/tmp/cov/$P.cov simcore/main.py $P --tier $T --digests $N > /var/tmp/cov/$P.digests 2>&1
    /venv/bin/python -m coverage report --data-file=/var/tmp/cov/$P.cov -m --skip-covered > /var/tmp/cov/$P.txt 2>&1 ) &
done
wait
