#!/bin/sh
# tools/seed_round.sh <PROP> <srcroot> <n>... : confirm <srcroot>/<PROP>/SEEDED/<n> as seeded/<PROP>-<n> (tools/confirm_seeded.py) and, when kept, run the
# quick check of PROP against it (tools/try_seed.sh).  Log: /var/tmp/s5/<PROP>.log
P=$1; R=$2; shift 2
mkdir -p /var/tmp/s5
for n in "$@"; do
  /venv/bin/python /verif/tools/confirm_seeded.py $R/$P/SEEDED/$n $P-$n $P 2>&1 | tail -3
  if [ -d /verif/seeded/$P-$n ]; then echo "--- check $P against $P-$n"; /verif/tools/try_seed.sh /verif/seeded/$P-$n/patch.diff $P quick; fi
done > /var/tmp/s5/$P.log 2>&1
