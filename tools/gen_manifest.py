#!/venv/bin/python
"""Regenerate MANIFEST.json from the metadata in props/*.py (keeps hooks/not_applicable from MANIFEST.base.json)."""
import importlib
import json
import os
import sys

VERIF = os.path.dirname(os.path.dirname(os.path.abspath(__file__)))
sys.path.insert(0, VERIF)
os.environ.setdefault('PYTHONHASHSEED', '0')
base = json.load(open(os.path.join(VERIF, 'MANIFEST.base.json')))
checks = []
engines = {}
for f in sorted(os.listdir(os.path.join(VERIF, 'props'))):
    if not (f.startswith('c') and f.endswith('.py')):
        continue
    if f[:-3].upper() not in base.get('_ready', []):
        continue
    m = importlib.import_module('props.' + f[:-3])
    pid = m.ID
    eng = getattr(m, 'ENGINE', 'SimLoop')
    engines.setdefault(eng, []).append(pid)
    checks.append(dict(
        property_id=pid,
        quick_cmd='./check %s --tier quick' % pid,
        thorough_cmd='./check %s --tier thorough' % pid,
        evidence_file='evidence/%s.json' % pid,
        replay_cmd_template='./check %s --replay {path}' % pid,
        engine=eng,
        level_claimed=dict(category=m.LEVEL, text=m.LEVEL_TEXT, design_ref='DESIGN.md section 3, %s' % pid),
        level_note=m.LEVEL_NOTE,
        technique=getattr(m, 'TECHNIQUE', 'deterministic simulation with fault injection: seeded search over schedules/histories/faults on the real code, reference-model oracle, tape shrinking and replay'),
    ))
base['checks'] = checks
ready = base.pop('_ready', [])
ENG_DOC = {
    'SimLoop': ('simcore/world.py', 'single-threaded deterministic stepping of the real Manager (tick/flush), order seams, virtual clock'),
    'SimThreads': ('simcore/simthreads.py', 'real threads, one baton, sys.monitoring LINE pre-emption points, lock/event doubles'),
    'SimNet': ('simcore/simnet.py', 'socket interposer over AF_UNIX + select shim + scripted faults + simulated peers'),
}
base['engines'] = [dict(name=k, path=ENG_DOC.get(k, ('', ''))[0], serves_properties=v, kind_free_text=ENG_DOC.get(k, ('', ''))[1]) for k, v in sorted(engines.items())]
claimed = {c['property_id'] for c in checks}
na = {n['property_id']: n for n in base.get('not_applicable', [])}
for l in open(os.path.join(VERIF, 'properties.jsonl')):
    pid = json.loads(l)['id']
    if pid not in claimed and pid not in na:
        na[pid] = dict(property_id=pid, reason='check under construction in this session (not yet claimed); see DESIGN.md section 3')
base['not_applicable'] = [na[k] for k in sorted(na) if k not in claimed]
json.dump(base, open(os.path.join(VERIF, 'MANIFEST.json'), 'w'), indent=1)
print('MANIFEST.json: %d checks' % len(checks))
