"""pytest plugin (-p order_shuffle, with PYTHONPATH=/verif/tools/ordershuffle): run circuits' own test-suite with the order of equal-priority
handlers (in production an accident of memory addresses: set iteration order of bound methods) decided by ORDER_SALT instead, so that
order-dependent behaviour shows up reproducibly.  Used to compare the repaired tree with the pinned one under several salts."""
import os
import zlib

import circuits.core.manager as M

SALT = int(os.environ.get('ORDER_SALT', '0'))
_orig = M.Manager.getHandlers


def _key(h):
    owner = getattr(h, '__self__', None)
    return zlib.crc32(('%d/%s/%s/%s' % (SALT, type(owner).__name__, getattr(owner, 'channel', ''), getattr(h, '__qualname__', repr(h)))).encode())


def getHandlers(self, event, channel, **kwargs):
    hs = _orig(self, event, channel, **kwargs)
    return sorted(hs, key=_key) if len(hs) > 1 else hs


if SALT:
    M.Manager.getHandlers = getHandlers
