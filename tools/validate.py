#!/usr/bin/env python3-vt
"""Validate MANIFEST.json and every evidence/*.json against the schemas in /root/.vp (needs jsonschema: run with python3-vt)."""
import glob
import json
import os
import sys
import jsonschema
V = os.path.dirname(os.path.dirname(os.path.abspath(__file__)))
bad = 0
man = json.load(open(os.path.join(V, 'MANIFEST.json')))
jsonschema.validate(man, json.load(open('/root/.vp/MANIFEST.schema.json')))
ids = {json.loads(l)['id'] for l in open(os.path.join(V, 'properties.jsonl'))}
claimed = {c['property_id'] for c in man['checks']}
na = {n['property_id'] for n in man.get('not_applicable', [])}
if claimed | na != ids or claimed & na:
    print('MANIFEST: claimed+not_applicable != properties', sorted(ids - claimed - na), sorted(claimed & na))
    bad += 1
es = json.load(open('/root/.vp/EVIDENCE.schema.json'))
for c in man['checks']:
    p = os.path.join(V, c['evidence_file'])
    if not os.path.exists(p):
        print('missing evidence', p)
        bad += 1
        continue
    try:
        ev = json.load(open(p))
        jsonschema.validate(ev, es)
        if ev['level'] != c['level_claimed']['category']:
            print('level mismatch', p)
            bad += 1
    except Exception as e:
        print('invalid evidence', p, str(e)[:300])
        bad += 1
print('validate: %d checks, %d problems' % (len(man['checks']), bad))
sys.exit(1 if bad else 0)
