#!/bin/sh
# tools/try_seed.sh <patch.diff> <PROP> [tier]: run the check of PROP against a scratch copy of /repo with the patch applied
T=$(mktemp -d /var/tmp/try-seed-XXXXXX); cp -r /repo/circuits $T/; patch -p1 -s -d $T -i "$1" || { echo "patch failed"; rm -rf $T; exit 2; }
VERIF_NO_EVIDENCE=1 VERIF_REPO=$T /verif/check $2 --tier ${3:-quick} 2>&1 | grep -E "^violation|^VIOLATION|^C[0-9]+:|HARNESS|KNOWN" | cut -c1-300
rm -rf $T
