#!/venv/bin/python
"""tools/confirm_seeded.py <source dir with patch.diff demo.py README.md> <seeded id> <property>

Independent confirmation of a seeded breaking change in a scratch worktree of /repo HEAD (under /var/tmp, removed afterwards):
the demo passes on the clean tree, fails with the change, and the test-suite still passes with the change (the 3 DNS tests fail
in this sandbox either way; a test that fails with the change is re-run alone up to 4 times and, if it keeps failing, run on the
clean tree as well: failing there too = timing flake under load, not caused by the change).  Kept as /verif/seeded/<id>/ iff confirmed.
"""
import json
import os
import re
import shutil
import subprocess
import sys

src, sid, prop = sys.argv[1:4]
wt = '/var/tmp/confirm-%s' % sid
PY = '/venv/bin/python'


def sh(cmd, cwd=None, timeout=1500):
    # own session + output to a file: a test that leaves forked children behind must not be able to hang us
    import signal
    import tempfile
    with tempfile.TemporaryFile('w+') as out:
        p = subprocess.Popen(cmd, cwd=cwd, stdout=out, stderr=subprocess.STDOUT, text=True, start_new_session=True)
        import time as _t
        t0 = _t.time()
        rc = None
        seen = None
        while rc is None and _t.time() - t0 < timeout:
            try:
                rc = p.wait(5)
            except subprocess.TimeoutExpired:
                # pytest prints its summary and may then hang at exit on a forked test child: do not wait for that
                out.flush()
                out.seek(0)
                if re.search(r'\d+ (passed|failed).* in [0-9.]+s', out.read()):
                    seen = seen or _t.time()
                    if _t.time() - seen > 20:
                        rc = -8
        if rc is None:
            rc = -9
        try:
            os.killpg(p.pid, signal.SIGKILL)
        except OSError:
            pass
        p.wait()
        out.seek(0)
        return rc, out.read()


def pytest(args, cwd):
    rc, out = sh([PY, '-m', 'pytest', '-q', '-p', 'no:cacheprovider', '--timeout=600'] + args, cwd)
    summ = [l for l in out.splitlines() if re.search(r'\d+ (passed|failed)', l)]
    failed = [l.split()[1] for l in out.splitlines() if l.startswith('FAILED ') and 'test_tcp_lookup_failure' not in l]
    return (summ[-1].strip('= ') if summ else 'no summary'), failed


rebased_text = None
sh(['git', '-C', '/repo', 'worktree', 'remove', '--force', wt])
rc, out = sh(['git', '-C', '/repo', 'worktree', 'add', '-q', '--detach', wt, 'HEAD'])
assert rc == 0, out
try:
    os.makedirs(wt + '/SEEDED/x')
    for f in ('patch.diff', 'demo.py', 'README.md'):
        shutil.copy(os.path.join(src, f), wt + '/SEEDED/x/')
    rc, out = sh([PY, '-c', 'import circuits; print(circuits.__file__)'], wt)
    assert out.strip().startswith(wt), out
    clean, _ = sh([PY, 'SEEDED/x/demo.py'], wt, 600)
    rc, out = sh(['git', 'apply', 'SEEDED/x/patch.diff'], wt)
    if rc != 0:
        # /repo has moved on since the change was written: take it with patch(1)'s fuzz and keep the regenerated diff
        rc, out = sh(['patch', '-p1', '-s', '--no-backup-if-mismatch', '-i', 'SEEDED/x/patch.diff'], wt)
        assert rc == 0, 'patch does not apply: ' + out
        rc, out = sh(['git', 'diff'], wt)
        open(os.path.join(wt, 'SEEDED/x/patch.diff'), 'w').write(out)
        rebased_text = out
    patched, demo_out = sh([PY, 'SEEDED/x/demo.py'], wt, 600)
    # tests/web/test_wsgi_application.py::test_404 can spin for ever when it runs late in a long session on a loaded machine (also on
    # the clean tree; pytest-timeout cannot break it): it is run on its own, everything else in one session
    T404 = 'tests/web/test_wsgi_application.py::test_404'
    summary, failed = pytest(['tests', '--deselect', T404], wt)
    if summary == 'no summary':          # killed by the timeout (loaded machine / a test child hanging): once more
        summary, failed = pytest(['tests', '--deselect', T404], wt)
    s404 = 'not run'
    for _ in range(3):
        s404, f404 = pytest([T404], wt)
        if s404 != 'no summary' and not f404:
            break
    else:
        failed.append(T404)
    summary += ' + test_404 alone: ' + s404
    flaky = []
    still = []
    for t in failed:
        if any(pytest([t], wt)[1] == [] for _ in range(4)):
            flaky.append(t + ' (passes when re-run alone)')
        else:
            still.append(t)
    if still:
        sh(['git', 'apply', '-R', 'SEEDED/x/patch.diff'], wt)
        for t in list(still):
            if any(pytest([t], wt)[1] != [] for _ in range(3)):
                still.remove(t)
                flaky.append(t + ' (fails on the clean tree under the same load as well)')
finally:
    sh(['pkill', '-9', '-f', '[s]ignalapp.py'])
    sh(['git', '-C', '/repo', 'worktree', 'remove', '--force', wt])
print('seeded %s (%s): demo clean=%d patched=%d; tests with change: %s; flaky: %s; failing because of the change: %s' % (
    sid, prop, clean, patched, summary, flaky, still))
if clean == 0 and patched == 1 and not still and not summary.startswith('no summary'):
    d = '/verif/seeded/%s' % sid
    os.makedirs(d, exist_ok=True)
    for f in ('patch.diff', 'demo.py', 'README.md'):
        shutil.copy(os.path.join(src, f), d)
    if rebased_text:
        shutil.copy(os.path.join(src, 'patch.diff'), d + '/patch.orig.diff')
        open(d + '/patch.diff', 'w').write(rebased_text)
    json.dump(dict(id=sid, property=prop,
                   source='written by an independent sub-agent that was given only the property text and its own scratch worktree',
                   needs='see README.md (what the change needs in order to manifest)',
                   confirmed=dict(demo_on_clean_tree='exit 0', demo_with_change='exit 1', test_suite_with_change=summary,
                                  dns_tests='the 3 test_tcp_lookup_failure tests fail in this sandbox with or without the change', flaky_tests=flaky,
                                  how='tools/confirm_seeded.py in a scratch worktree of /repo HEAD under /var/tmp (removed afterwards)'),
                   expect='caught'), open(d + '/meta.json', 'w'), indent=1)
    print('KEPT', d)
else:
    print('NOT KEPT', sid, demo_out[-300:] if patched != 1 else '')
