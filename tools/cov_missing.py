#!/venv/bin/python
"""tools/cov_missing.py <coverage data file> <source file under /repo/circuits> : missed lines grouped by enclosing class.function, with the text."""
import ast, sys, coverage
data, src = sys.argv[1], sys.argv[2]
cov = coverage.Coverage(data_file=data)
cov.load()
_, stmts, _, missing, _ = cov.analysis2(src)
tree = ast.parse(open(src).read())
spans = []
def walk(node, prefix):
    for ch in ast.iter_child_nodes(node):
        if isinstance(ch, (ast.FunctionDef, ast.ClassDef, ast.AsyncFunctionDef)):
            name = prefix + ch.name
            spans.append((ch.lineno, ch.end_lineno, name))
            walk(ch, name + '.')
walk(tree, '')
lines = open(src).read().splitlines()
def owner(l):
    best = None
    for a, b, n in spans:
        if a <= l <= b and (best is None or a >= best[0]):
            best = (a, n)
    return best[1] if best else '<module>'
last = None
for l in missing:
    o = owner(l)
    if o != last:
        print('--', o)
        last = o
    print('   %4d %s' % (l, lines[l - 1].strip()[:130]))
