#!/venv/bin/python
"""Fill in 'summary' / 'needs' in seeded/<id>/meta.json (texts condensed from the seeding agents' READMEs) and print the table for DESIGN.md."""
import json
import os
V = os.path.dirname(os.path.dirname(os.path.abspath(__file__)))
T = {
 'C01-1': ('handler-cache refresh moved from _dispatcher (per event) to _flush (per batch)', 'warm cache entry + handler-set change made by a handler + another event of the same key later in the same batch'),
 'C01-2': ('getHandlers returns before descending into children when the target channel is the component instance', 'event addressed to a component instance with matching listeners below that instance'),
 'C02-1': ('nested flush() merges newly queued events into the running pass (batch counter += len(queue))', 'handler fires a lower-priority-value event and then calls flush()/tick() while the pass still has pending events'),
 'C02-2': ('exception branch of the dispatcher ends with `continue`, skipping the `event.stopped` test', 'one handler invocation calls event.stop() and then raises, with a lower-priority handler present'),
 'C03-1': ('lock-free fast path in _fire: _currently_handling read without the lock, plain append when the loop is not idling', 'firing thread pre-empted between reading `handling` and the append while the loop goes through the hand-shake and falls asleep'),
 'C03-2': ('dispatchEvents moves the deque into the heap with extend + clear + heapify', 'foreign fire() appends exactly between extend and clear: the event is wiped'),
 'C04-1': ('dispatcher no longer marks the event as failed', 'success=True + a raising plain handler + a generator handler on the same event'),
 'C04-2': ('Value.setValue: `elif v is not None` -> `elif v` (falsy first result does not set .result)', 'two or more results for one event, the first one falsy but not None'),
 'C05-1': ('_step() no longer sets _flushing_thread around a generator step', 'manager driven by tick() (not run()), child fired from a generator continuation step, with descendants'),
 'C05-2': ('fast path in _dispatcher returns early for events without handlers (skips _eventDone/_effectDone)', 'tracked descendant with no handler at all (unknown name or deaf channel)'),
 'C06-1': ('removeHandler marks the cache dirty only when a name loses its last handler', 'two call(..., timeout) in flight from one component on events of the same name; first finishes while the second stays suspended'),
 'C06-2': ('waitEvent._on_done no longer checks whose done event arrived', 'two calls in flight on different event objects with the same name/channel, callees of different length'),
 'C07-1': ('_EventQueue.drainFrom no longer clears the drained queue', 'events queued on a detached component, register, unregister (completed), then tick it as a root / re-register'),
 'C07-2': ('handler-cache refresh moved from _dispatcher to _flush', 'event of the same key queued in the same batch behind prepare_unregister_complete'),
 'C08-1': ('run() evaluates its loop condition without the manager lock', 'foreign-thread stop() pre-empted between clearing the flag and queueing `stopped` while the run thread evaluates the condition'),
 'C08-2': ('processTask handles SystemExit from a generator step with stop(code) instead of _exit(code)', 'stop with a non-None code from a generator step (after a yield); `stopped` handlers that fire follow-up events'),
 'C09-1': ('persistent timer re-arms with expiry += interval instead of reset()', 'a firing noticed late (slow handler / clock jump): following firings closer than one interval'),
 'C09-2': ('a firing timer calls event.stop() on generate_events instead of reduce_time_left(0)', 'two or more timers due in the same iteration (equal expiries)'),
 'C10-1': ('Poll/EPoll: POLLHUP together with POLLIN fires _read and, in the same round, _disconnect + discard', 'peer writes more than one bufsize and closes before the next poll round (unix sockets, pipes)'),
 'C10-2': ('removeReader deletes the target channel while the descriptor is still a writer (or -> and)', 'addReader, addWriter, removeReader with a poller that is not a child of the owning component'),
 'C11-1': ('Server.close(): a second close request for a socket already queued for a deferred close closes at once and drops the buffer', 'writes, close while data is buffered, then a second close / close() of the server / peer EOF before the buffer drains'),
 'C11-2': ('Client._write no longer treats EINTR as transient', 'EINTR raised by send() on a client endpoint'),
 'C15-1': ('httperror closes the connection only for codes >= 400, so redirects keep the connection alive', 'non-canonical request path (answered 301 without dropping the parser) followed by further requests on the connection'),
 'C15-2': ('file_generator stops at the first short read', 'file-like/stream body whose read(n) returns fewer than n bytes before EOF'),
 'C17-1': ('pending message type recorded for every non-continuation frame, control frames included', 'ping/pong between the fragments of a fragmented text message'),
 'C17-2': ('payload-complete test done on the slice instead of on the remaining length', 'empty masked frame with a read boundary inside its masking key'),
 'C18-1': ('splitLines splits only the new data and glues the held buffer onto the first piece', 'read boundary exactly between the CR and the LF of a CRLF'),
 'C12-1': ('Poll/EPoll: a hang-up bit alone (also together with POLLIN) is reported as _disconnect', 'peer sends bytes and resets before the server polls next: connect, disconnect, no read under Poll/EPoll'),
 'C12-2': ('Server._close no longer removes the socket from the deferred-close queue', 'peer stops reading, close(sock) is deferred, peer resets before the buffer drains'),
 'C13-1': ('the "parser error -> 400" block runs after every parser.execute(), not only before the headers are complete', 'chunked request with a read boundary between a chunk\'s data and its CRLF (stale INVALID_CHUNK errno)'),
 'C13-2': ('header-end search resumes from the scanned offset with an overlap of 2 instead of 3 bytes', 'read boundary between CR LF CR and the final LF of a header block'),
 'C14-1': ('the sock.fileno() >= 0 guard before HTTP._closing.add(sock) is dropped', 'peer disconnects exactly one event generation after the rejecting read: closed socket added to _closing and never removed'),
 'C14-2': ('the `sock in self._closing` guard of _on_read is consulted only when the connection has no parser', '505 (or exception-handler rejection) that keeps the parser + a further read before the close: second answer / rejected request dispatched'),
 'C19-1': ('call id is only consumed by events that await a result', 'no-result event followed by an awaited call on one connection while both are in flight'),
 'C19-2': ('load_value no longer filters protected keys out of a result packet\'s meta', 'raw peer answers a pending call with a result packet whose meta holds protected keys'),
 'C01-3': ('override resolution takes the flag of the nearest redefining class only', 'A.h, B(A).h override=True, C(B).h redefined without override: A.h attached again'),
 'C01-4': ('addHandler marks the cache dirty BEFORE filing the handler', 'second thread inside addHandler between flag and insert while the loop dispatches an event of that key (needs threads: outside C01\'s quantifier)'),
 'C02-3': ('handlers sorted per channel and the sorted runs chained', 'one event fired on two channels with handlers of interleaving priorities on different channels'),
 'C02-4': ('heap fast path with a _prioritized flag cleared at the end of dispatchEvents', 'handler fires non-zero-priority events in non-ascending order during a pass, next pass pops a non-heap'),
 'C03-3': ('dispatchEvents resets the sequence counter when the deque looks empty (unlocked check-then-act)', 'foreign fire between the check and the reset, second fire before the next batch: B overtakes A'),
 'C03-4': ('poller resume() skips the control-pipe write unless a _waiting flag is up; flag raised after time_left was copied', 'foreign fire exactly between the two adjacent lines in _generate_events'),
 'C04-3': ('exception arm of the dispatcher no longer overwrites the loop-wide `value`', 'raising handler whose predecessor returned a value (recorded twice) or a generator (counted twice)'),
 'C04-4': ('processTask isolates resumed generators against Exception only', 'generator handler raising a BaseException that is not an Exception when resumed'),
 'C05-3': ('_fire does not link an event that itself requests complete', 'complete-requesting event nested in the closure of another complete-requesting event'),
 'C05-4': ('cancelled descendant only decrements cause.effects instead of walking _effectDone', 'cancelled event is the last outstanding effect of its cause'),
 'C06-3': ('second sequential call() of a handler is started outside _step()', 'complete=True caller with two sequential calls whose later callee fires follow-up events that outlive it'),
 'C06-4': ('a handler failing in the step where it is resumed from call/wait gives back one waiting entry instead of two', 'nesting depth >= 2, failure (or uncaught TimeoutError) exactly on resumption'),
 'C07-3': ('_updateRoot skips children whose unregistration is pending', '_updateRoot over a subtree containing a pending component (register a root whose child is pending; parent then child unregistered before a tick)'),
 'C07-4': ('_do_prepare_unregister_complete marks the former root\'s cache instead of its own', 'five-step history: root fills cache, becomes child, handlers below change, detached, dispatches a cached key'),
 'C08-3': ('run() raises the stored exit code but never resets it', 'run ending with a code followed by a re-run stopped without one'),
 'C08-4': ('stop(code) on a non-running manager reaches the trailing raise SystemExit(code)', 'non-None code given to stop() on a manager that is not running / already stopping'),
 'C09-3': ('unregister_pending guard removed from the due branch', 'timer due during the two iterations its unregistration takes'),
 'C09-4': ('reset() writes expiry = now and then += interval', 'reset() from another thread with the loop testing the timer between the two assignments (or mktime raising)'),
 'C10-3': ('Select._preenDescriptors guards its probe with `except OSError` instead of `except Exception`', 'socket object closed while still registered (fileno -1 -> ValueError): Select never reports any descriptor again'),
 'C10-4': ('EPoll._process flattened into if hang-up / elif EPOLLIN / elif EPOLLOUT', 'descriptor readable and writable at once: _write is dropped while it stays readable'),
 'C11-3': ('Server._write re-queues a transiently refused payload with write() (append) instead of appendleft', 'two payloads buffered and a transient errno on the front one: reordered'),
 'C11-4': ('Client._write offers send() only data[:1 MiB] and compares with the slice length', 'payload larger than 1 MiB and a send() that accepts the whole slice: the rest is dropped'),
 'C12-3': ('Server.close no longer skips sockets that are neither the listener nor a client', 'late close(sock) after the connection is gone: buffer entry re-created'),
 'C12-4': ('Server._read no longer ignores sockets that are not clients any more', 'Select round reporting a socket readable and writable where the writable side ends the connection: error event after disconnect'),
 'C14-3': ('_on_disconnect drops the parser only when the connection has no request/response pair', 'disconnect while headers are complete and the body outstanding'),
 'C14-4': ('_parse_headers marks the headers complete before validating the lines', 'invalid header line (after Host for HTTP/1.1): errno set but message treated as good, dispatched and answered 200'),
 'C15-3': ('Content-Length of a list body counts characters instead of encoded bytes', 'list body with a non-ASCII str element, streaming off'),
 'C15-4': ('the HEAD early return of _on_response comes after the streaming branch', 'HEAD of a streamed resource (file object, static file): body sent'),
 'C17-3': ('the break after handling a close frame is removed', 'complete data frame right behind the close frame in the same read: delivered after close'),
 'C17-4': ('16-bit length encoding used up to 65536 inclusive', 'written message of exactly 65536 bytes'),
 'C18-3': ('server-mode Line writes the buffer back only when it is non-empty', 'read that completes a held partial line and ends exactly on the terminator, then one more line on that socket'),
 'C18-4': ('parsemsg strips the raw line', 'last argument ending in whitespace'),
 'C19-3': ('add_buffer returns early unless the NEW read contains the delimiter or ends in } or ]', 'delimiter bytes spread over two or three reads with nothing following'),
 'C19-4': ('Protocol.error_handler loses channel="*"', 'callee root component with an explicit channel other than "*" and a remote handler that raises'),
 'C01-5': ('_do_prepare_unregister_complete no longer marks the detached component\'s own handler cache for refresh', 'component that was a root (warm cache), joined a tree, handler set changed there, detached again and dispatches as its own root'),
 'C01-6': ('_EventQueue.drainFrom re-appends the events but no longer empties the source queue', 'events queued on a detached component, register (drained), later unregister and tick it as a root / re-register'),
 'C02-5': ('fireEvent() resets event.stopped', 'a handler calls event.stop() and then fires the very same event object again inside the same invocation'),
 'C02-6': ('queue tie-break by time() instead of a sequence counter', '4+ equal-priority events queued within one clock reading (or a clock set back between two fires)'),
 'C03-5': ('reduce_time_left(): test and assignment of _time_left outside the manager lock', 'pending Timer + foreign fire() landing between the Timer\'s test and its assignment: the 0 is overwritten'),
 'C03-6': ('fall back helper components become per-process singletons (shared _continue flag)', 'two managers running in one process + three-thread interleaving: another manager\'s clear() wipes the set() meant for this one'),
 'C04-5': ('failure feedback hoisted out of the handler loop (once per event)', 'failure=True and two or more raising handlers in one dispatch'),
 'C04-6': ('refactored _suspendOn passes the wrong task in the ExceptionWrapper arm', 'handler catches the TimeoutError of a timed-out call()/wait() and then yields another call()/wait()'),
 'C05-5': ('waitingHandlers released only when the handler yields a non-None value after a caught timeout', 'tracked event whose handler catches a wait()/call() timeout and then does a bare yield'),
 'C05-6': ('_eventDone returns early for failed events with success=True (skips _effectDone)', 'tracked descendant with success=True whose handler raised'),
 'C06-5': ('waitEvent._on_done removes the countdown handler only if state.timeout > 0', 'timeout=N>=1 and the callee\'s done event dispatched exactly in the iteration where the countdown reaches 0'),
 'C06-6': ('processTask no longer sets event.failed when a task step raises', 'two generator handlers suspended on one event (success=True): one raises in a step, the other finishes later'),
 'C07-5': ('register() no longer assigns self.root before registerChild()', 'a second thread fires on the component between the drain and _updateRoot (outside the sequential histories C07 quantifies over)'),
 'C07-6': ('register() reads parent.root once into a local', 'loop thread completes the parent\'s pending unregistration while another thread is inside register() (outside the sequential histories C07 quantifies over)'),
 'C08-5': ('generate_events arming drops the `not self._running` term', 'foreign-thread stop() whose `stopped` is dispatched before the generate_events of the same batch is prepared'),
 'C08-6': ('_exit() remembers the code only if truthy', 'stop(0) / SystemExit(0) / other falsy codes from a handler'),
 'C09-5': ('datetime deadline converted with timedelta.seconds', 'Timer with a datetime whose sub-second part is below now\'s, more than a day away, or in the past'),
 'C09-6': ('Timer._on_generate_events returns early when time_left == 0', 'timer due in an iteration in which the event queue is not empty when generate_events is dispatched'),
 'C10-5': ('Poll._updateRegistration uses poll.modify() for numbers it already knows (tested by number, not by object)', 'socket closed while Poll still knows it, new socket gets the same fd number and is registered before the next poll round'),
 'C10-6': ('Select re-checks membership against sets built before select() blocks', 'another thread discards / removes a ready descriptor while the poller thread is blocked in select() (outside the sequential histories C10 quantifies over)'),
 'C11-5': ('File._write measures the remainder of a partial write in characters of the str payload instead of encoded bytes', 'File endpoint, str payload with multi-byte characters, os.write accepts only part of it'),
 'C11-6': ('Server._write keeps sending after a partial send; the untouched except clause re-queues the whole payload', 'partial send followed by a transient errno inside one _write notification'),
 'C12-5': ('partial sends re-register the writer (duplicate entries; discard removes one)', 'peer stops reading so that a send is partial, connection ends while surplus registrations exist (EPoll/Poll)'),
 'C12-6': ('Server._read discards the socket from the poller at EOF (drops the write interest too)', 'output queued across rounds, peer half-closes, no further write: deferred close never completes, no disconnect'),
 'C13-5': ('chunked _parse_body returns 0 ("message complete") when a read ends exactly after a chunk\'s closing CRLF', 'cut exactly after the CRLF that ends a chunk\'s data with more of the message to come'),
 'C13-6': ('leading-CRLF skipping looks at the piece that just arrived instead of the accumulated line', 'cut exactly between the first line\'s text and its CRLF, both CRLF bytes in the next read'),
 'C14-5': ('httperror sets close only for codes outside 3xx; the path guard keeps its finished parser', 'non-normalised path answered 301 without Connection: close, then any further bytes on the connection'),
 'C14-6': ('505 check rp[0] != sp[0] becomes rp[0] > sp[0]', 'valid request line with major version below 1 and a Host header'),
 'C15-5': ('socket marked as closing before Response.prepare() has decided to close', 'HTTP/1.0 keep-alive request for an unknown-length body and the client\'s next request arriving in mid-stream (pipelining: outside C15\'s request sequences, and the unchanged tree mis-serves pipelined requests too)'),
 'C15-6': ('leading empty items of a streamed body are written as chunks (0-length = last-chunk)', 'streamed/WSGI generator body whose first item is empty, HTTP/1.1 chunked'),
 'C17-5': ('text fragments decoded as they arrive', 'fragmented text message with a fragment boundary inside a multi-byte character'),
 'C17-6': ('receive buffer only cleared when a data message completes', 'read boundary inside a ping/pong/non-final fragment that ends exactly at the end of the completing read, more frames afterwards'),
 'C18-5': ('Line keeps LF-less reads in one list per component instead of per socket', 'server mode: a read without LF from socket A, then a read from socket B before A\'s terminator'),
 'C18-6': ('parsemsg drops an empty trailing argument', 'IRC message whose last argument is the empty string'),
 'C19-5': ('load_event keeps a string `notify` (event name to notify with)', 'hostile call packet whose notify string cannot be a type name (NUL, lone surrogate) and a handler that returns a value'),
 'C19-6': ('fire-and-forget fast path send_nowait() bypasses the send firewall', 'server side, send firewall that rejects the event, push without result'),
 'C01-7': ('unregisterChild no longer marks the root\'s handler cache for refresh', 'an event key dispatched while the unregistration is pending (cached with the leaving component\'s handlers), then the same key again after it left'),
 'C01-8': ('HandlerMetaClass ignores the @handler(False) opt-out', 'public method marked @handler(False) and an event named like it'),
 'C02-7': ('a flush pass moves at most 256 events into the priority heap', 'more than 256 events queued before a pass with an urgent one far behind'),
 'C02-8': ('the stopped test is skipped for handlers that do not take `event`', 'stop() called by a handler without the event parameter (through a kept reference), lower-priority handler present'),
 'C03-7': ('_currently_handling published after the locked idle check', 'loop thread pre-empted on the one line between the locked block and the assignment while a firing thread fires'),
 'C03-8': ('queue sequence counter becomes read / use / write-back', 'loop thread pre-empted inside its own append(), a firing thread completes two fires, loop writes the stale counter back, the same thread fires again before the next pass'),
 'C04-7': ('finished generator task not unregistered while a sibling is suspended (double decrement of waitingHandlers)', 'success=True and two generator handlers on one event finishing two or more ticks apart'),
 'C04-8': ('dispatcher fast path for handler-less events calls _effectDone instead of _eventDone', 'success=True on an event whose handler lookup is completely empty'),
 'C05-7': ('a raising generator step declares the event done at once (waitingHandlers = 0)', 'two generator handlers on one event: one raises while the other is still suspended and fires events later'),
 'C05-8': ('dispatcher keeps the previous handler\'s return value when a handler raises', 'a handler returning a generator invoked immediately before a handler that raises'),
 'C06-7': ('timed-out wait() on a not yet dispatched event keeps its <name>_done handler', 'wait() with a timeout that expires before the awaited event has been dispatched'),
 'C06-8': ('a handler resumed from call()/wait() that continues with a bare yield is never stepped again', 'call/wait, then one or more bare yields'),
 'C07-7': ('registerChild refuses a new child when the parent\'s unregistration is pending, after register() rewired the child', 'register(c, p) while p.unregister() is pending'),
 'C07-8': ('unregistered(c, root) instead of unregistered(c, parent)', 'unregister from a non-root parent and an observer that reads the second argument'),
 'C08-7': ('KeyboardInterrupt and SystemExit from a generator step folded into one except clause using e.code', 'KeyboardInterrupt raised from a step of a generator handler'),
 'C08-8': ('exit code stored by stop() only (returns early when not running)', 'plain stop first, then SystemExit(code) raised during the drain'),
 'C09-7': ('one clock reading per loop iteration, stamped when generate_events is created', 'a handler that consumes time in the same batch with a timer expiry inside that window'),
 'C09-8': ('a timer is no longer due AT its expiry (>= became >)', 'clock reading exactly equal to the expiry (interval 0, or a sleep that ends exactly there)'),
 'C10-7': ('Poll/EPoll forget the descriptor before firing _disconnect: the event loses its addressee', 'writer-only descriptor whose peer hangs up, poller not a child of the owner'),
 'C10-8': ('Poll/EPoll: no _write once the peer hung up', 'descriptor registered as reader and writer, peer fully hung up'),
 'C11-7': ('Client.__on_write decides on the popped payload instead of the buffer', 'write(b\'\') that is not the last entry of the buffer'),
 'C11-8': ('Server: a fatal send error calls the deferring close() instead of error + _close()', 'payload buffered behind the failing one and a send script that accepts again after EPIPE/ECONNRESET'),
 'C12-7': ('failed send reports error AFTER disconnect', 'peer resets while the server has output queued'),
 'C12-8': ('Server._on_write decides "queue drained" before the send', 'partial send of the last queued payload, then a graceful end'),
 'C13-7': ('"no body" decided once at message begin, ignoring chunked', 'chunked request and a read boundary exactly at the end of the header block'),
 'C13-8': ('early "not a request line" check applied to an incomplete first read', 'read boundary inside the method token'),
 'C14-7': ('SSL-hello test applied to every read while the header block is incomplete', 'continuation read that starts with a byte >= 0x80'),
 'C14-8': ('Content-Length no longer converted by the HTTP component', 'non-numeric / conflicting Content-Length with the read that completes the headers ending at the blank line'),
 'C15-7': ('rest of a partially sent buffer re-queued at the wrong end', 'partial send with another buffer queued behind it (chunked generator, streamed file, slow reader)'),
 'C15-8': ('prepare() writes the Connection header from a stale snapshot of close', 'keep-alive request, body of unknown length, no chunked available (HTTP/1.0 keep-alive, HEAD)'),
 'C17-7': ('header-complete check forgets the mask bit', 'masked frame with a 16/64-bit length and a read boundary inside the extended length'),
 'C17-8': ('answering the peer\'s close no longer marks the close as sent', 'peer closes first, the codec answers, then the application writes'),
 'C18-7': ('splitLines rewritten with bytes.splitlines()', 'a CR not followed by LF inside a line'),
 'C18-8': ('the newline check of Message skips the middle arguments', 'CR/LF in a non-last argument without a space'),
 'C19-7': ('one escaped tilde per delimiter (str.replace does not overlap)', 'a run of 4+ tildes (n % 3 != 0) in an argument or result'),
 'C19-8': ('results routed by node_sock instead of the Protocol object', 'a node with two outgoing connections and calls coming back over them'),
 'C18-2': ('_check_args rewritten with regexes using $ (matches before a trailing newline)', 'command / prefix / argument ending in a single LF'),
}
rows = []
for sid in sorted(os.listdir(os.path.join(V, 'seeded'))):
    mp = os.path.join(V, 'seeded', sid, 'meta.json')
    if not os.path.exists(mp):
        continue
    m = json.load(open(mp))
    if sid in T:
        m['summary'], m['needs'] = T[sid]
    CB = {'C04-6': 'C06', 'C06-6': 'C04'}   # decided by a neighbouring property's check (the clause broken is that check's oracle)
    if sid in CB:
        m['caught_by_property'] = CB[sid]
        m['caught_by'] = CB[sid] + ' quick'
    if sid == 'C10-6':
        m['expect'] = 'missed'
        m['caught_by'] = 'not decided: needs a second thread inside the poller; C10 quantifies over sequential histories'
    if sid == 'C15-5':
        m['expect'] = 'missed'
        m['caught_by'] = 'not decided: needs a pipelined request; C15 quantifies over requests that follow the previous response'
    if sid in ('C07-5', 'C07-6'):
        m['expect'] = 'missed'
        m['caught_by'] = 'not decided: needs a second thread inside register(); C07 quantifies over sequential histories'
    if sid == 'C06-3':
        # the clause it breaks (<caller>_complete only after the callee's follow-up work) is C05's oracle; C05's workload has call()/wait() shapes for it
        m['caught_by_property'] = 'C05'
        m['caught_by'] = 'C05 quick'
    json.dump(m, open(mp, 'w'), indent=1)
    rows.append('| %s | %s | %s | %s | %s |' % (sid, m['property'], m.get('summary', ''), m.get('needs', ''), m.get('caught_by', m['property'] + ' quick')))
print('| id | property broken | change | needs | caught by |\n|---|---|---|---|---|')
print('\n'.join(rows))
