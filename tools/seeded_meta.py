#!/venv/bin/python
"""Fill in 'summary' / 'needs' in seeded/<id>/meta.json (texts condensed from the seeding agents' READMEs) and print the table for DESIGN.md."""
import json
import os
V = os.path.dirname(os.path.dirname(os.path.abspath(__file__)))
T = {
 'C01-1': ('handler-cache refresh moved from _dispatcher (per event) to _flush (per batch)', 'warm cache entry + handler-set change made by a handler + another event of the same key later in the same batch'),
 'C01-2': ('getHandlers returns before descending into children when the target channel is the component instance', 'event addressed to a component instance with matching listeners below that instance'),
 'C02-1': ('nested flush() merges newly queued events into the running pass (batch counter += len(queue))', 'handler fires a lower-priority-value event and then calls flush()/tick() while the pass still has pending events'),
 'C02-2': ('exception branch of the dispatcher ends with `continue`, skipping the `event.stopped` test', 'one handler invocation calls event.stop() and then raises, with a lower-priority handler present'),
 'C03-1': ('lock-free fast path in _fire: _currently_handling read without the lock, plain append when the loop is not idling', 'firing thread pre-empted between reading `handling` and the append while the loop goes through the hand-shake and falls asleep'),
 'C03-2': ('dispatchEvents moves the deque into the heap with extend + clear + heapify', 'foreign fire() appends exactly between extend and clear: the event is wiped'),
 'C04-1': ('dispatcher no longer marks the event as failed', 'success=True + a raising plain handler + a generator handler on the same event'),
 'C04-2': ('Value.setValue: `elif v is not None` -> `elif v` (falsy first result does not set .result)', 'two or more results for one event, the first one falsy but not None'),
 'C05-1': ('_step() no longer sets _flushing_thread around a generator step', 'manager driven by tick() (not run()), child fired from a generator continuation step, with descendants'),
 'C05-2': ('fast path in _dispatcher returns early for events without handlers (skips _eventDone/_effectDone)', 'tracked descendant with no handler at all (unknown name or deaf channel)'),
 'C06-1': ('removeHandler marks the cache dirty only when a name loses its last handler', 'two call(..., timeout) in flight from one component on events of the same name; first finishes while the second stays suspended'),
 'C06-2': ('waitEvent._on_done no longer checks whose done event arrived', 'two calls in flight on different event objects with the same name/channel, callees of different length'),
 'C07-1': ('_EventQueue.drainFrom no longer clears the drained queue', 'events queued on a detached component, register, unregister (completed), then tick it as a root / re-register'),
 'C07-2': ('handler-cache refresh moved from _dispatcher to _flush', 'event of the same key queued in the same batch behind prepare_unregister_complete'),
 'C08-1': ('run() evaluates its loop condition without the manager lock', 'foreign-thread stop() pre-empted between clearing the flag and queueing `stopped` while the run thread evaluates the condition'),
 'C08-2': ('processTask handles SystemExit from a generator step with stop(code) instead of _exit(code)', 'stop with a non-None code from a generator step (after a yield); `stopped` handlers that fire follow-up events'),
 'C09-1': ('persistent timer re-arms with expiry += interval instead of reset()', 'a firing noticed late (slow handler / clock jump): following firings closer than one interval'),
 'C09-2': ('a firing timer calls event.stop() on generate_events instead of reduce_time_left(0)', 'two or more timers due in the same iteration (equal expiries)'),
 'C10-1': ('Poll/EPoll: POLLHUP together with POLLIN fires _read and, in the same round, _disconnect + discard', 'peer writes more than one bufsize and closes before the next poll round (unix sockets, pipes)'),
 'C10-2': ('removeReader deletes the target channel while the descriptor is still a writer (or -> and)', 'addReader, addWriter, removeReader with a poller that is not a child of the owning component'),
 'C11-1': ('Server.close(): a second close request for a socket already queued for a deferred close closes at once and drops the buffer', 'writes, close while data is buffered, then a second close / close() of the server / peer EOF before the buffer drains'),
 'C11-2': ('Client._write no longer treats EINTR as transient', 'EINTR raised by send() on a client endpoint'),
 'C15-1': ('httperror closes the connection only for codes >= 400, so redirects keep the connection alive', 'non-canonical request path (answered 301 without dropping the parser) followed by further requests on the connection'),
 'C15-2': ('file_generator stops at the first short read', 'file-like/stream body whose read(n) returns fewer than n bytes before EOF'),
 'C17-1': ('pending message type recorded for every non-continuation frame, control frames included', 'ping/pong between the fragments of a fragmented text message'),
 'C17-2': ('payload-complete test done on the slice instead of on the remaining length', 'empty masked frame with a read boundary inside its masking key'),
 'C18-1': ('splitLines splits only the new data and glues the held buffer onto the first piece', 'read boundary exactly between the CR and the LF of a CRLF'),
 'C18-2': ('_check_args rewritten with regexes using $ (matches before a trailing newline)', 'command / prefix / argument ending in a single LF'),
}
rows = []
for sid in sorted(os.listdir(os.path.join(V, 'seeded'))):
    mp = os.path.join(V, 'seeded', sid, 'meta.json')
    if not os.path.exists(mp):
        continue
    m = json.load(open(mp))
    if sid in T:
        m['summary'], m['needs'] = T[sid]
    json.dump(m, open(mp, 'w'), indent=1)
    rows.append('| %s | %s | %s | %s | %s |' % (sid, m['property'], m.get('summary', ''), m.get('needs', ''), m.get('caught_by', m['property'] + ' quick')))
print('| id | property broken | change | needs | caught by |\n|---|---|---|---|---|')
print('\n'.join(rows))
